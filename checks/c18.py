"""C18 - LCD animations never block, stay inside their row, finish unless looping, are rate limited.

Device: generated sketches start 1-2 animations (4 styles x loop on/off x speed x text length x width) in the prologue
and run for many passes under generated per-pass clock increments; invariants are evaluated on the firmware trace.
Host: generated histories of LCD.animate / LCD.tick(now) with positive non-decreasing timestamps; the same invariants
are evaluated on the host object after every call, and tick must never raise.
"""
from __future__ import annotations

from hypothesis import Phase, given, seed as hseed, strategies as st

from vlib import fwbuild as fb
from vlib.runner import Result, hyp_settings

ID = "C18"
LEVEL = "exploration"
RULE = (
    "(device) Hypothesis draws a display (cols 1-40, rows 1-4, I2C or parallel), 1-3 animations on distinct rows, each started at top level or inside the taken arm of an if/else whose other arm names a different animation for the same row (style in scroll/blink/typewriter/bounce, loop "
    "on/off, speed_ms in {0,1,50,200,1000,65535,65536,70000,100000}, text empty/shorter/equal/longer than the row) started in the prologue, a main loop with a marker and optional sleep, and "
    "a tape of per-pass clock increments (0, 1, speed-1, speed, speed+1, 5*speed; first pass at millis()==0 or later); N = 3*bound+6 passes (bound = 2*(len+cols)+4). "
    "Invariants on the trace: no delay in setup() caused by animate; in every pass all display traffic precedes the first user statement with no delay; no write "
    "outside the display, frames touch only their row and clear exactly cols cells; a non-looping animation stops writing after <= bound+1 frames, a looping one "
    "(speed <= 1) still writes in the last third of the run; frames whose predecessor ran at millis() > 0 are >= speed_ms apart. (host) histories of animate / "
    "tick(now) / tick() with non-decreasing positive timestamps arriving early, on time and late: tick never raises, rows keep length cols, only animated rows "
    "change, non-looping states become inactive within bound steps, looping ones stay active, consecutive steps are >= speed_ms apart once last_tick > 0. "
    "A third of the host histories also create and tick a second LCD object in the same process (its operations must not touch the first one's animations or rows). Non-trivial = text longer than the row, or speed_ms > 0 with an early tick, or two animations. distinct = distinct sketch+tape / history."
)
ASSUMPTIONS = ["liveness is checked as bounded termination with the linear bound 2*(len(text)+cols)+4 steps", "animations started inside the main-loop body are an open finding (never advanced) and are excluded by construction"]

HEAD = "from Reduino.Communication import SerialMonitor\nfrom Reduino.Displays import LCD\nfrom Reduino.Utils import sleep\nmon = SerialMonitor(9600)\n"
STYLES = ["scroll", "blink", "typewriter", "bounce"]
SPEEDS = [0, 1, 50, 200, 1000, 65535, 65536, 70000, 100000]


def bound(text_len, cols):
    return 2 * (text_len + cols) + 4


@st.composite
def device_case(draw):
    cols = draw(st.sampled_from([1, 2, 8, 16, 20, 40]) | st.integers(1, 40))
    rows = draw(st.integers(1, 4))
    i2c = draw(st.booleans())
    decl = f"lcd = LCD(i2c_addr=0x27, cols={cols}, rows={rows})" if i2c else f"lcd = LCD(rs=22, en=23, d4=24, d5=25, d6=26, d7=27, cols={cols}, rows={rows})"
    lines = [HEAD.rstrip("\n"), decl]
    anims = []
    used_rows = draw(st.lists(st.integers(0, rows - 1), min_size=1, max_size=min(3, rows), unique=True))
    mode = draw(st.integers(1, 2))
    lines.append(f"mode = {mode}")

    def one(r):
        style = draw(st.sampled_from(STYLES))
        loop = draw(st.booleans())
        speed = draw(st.sampled_from(SPEEDS))
        cls = draw(st.sampled_from(["empty", "short", "equal", "long"]))
        n = {"empty": 0, "short": max(0, cols - draw(st.integers(1, max(1, cols)))), "equal": cols, "long": cols + draw(st.integers(1, 6))}[cls]
        text = draw(st.text(alphabet="abcdefghijklmnopqrstuvwxyz0123456789", min_size=n, max_size=n))
        form = draw(st.sampled_from(["kw", "pos"]))
        call = f"lcd.animate({style!r}, {r}, {text!r}, speed_ms={speed}, loop={loop})" if form == "kw" else f"lcd.animate({style!r}, {r}, {text!r}, {speed}, loop={loop})"
        return call, {"style": style, "row": r, "text": text, "speed": speed, "loop": loop}

    branched = 0
    for r in used_rows:
        call, a = one(r)
        # started at top level, or in the arm of an if/else that the run takes (the other arm names another animation for the same row, never started)
        place = draw(st.sampled_from(["top", "if", "else", "else"]))
        if place == "top":
            lines.append(call)
        else:
            other, _ = one(r)
            taken_first = (mode == 1)
            first, second = (call, other) if (place == "if") == taken_first else (other, call)
            if place == "if":
                lines += [f"if mode == {mode}:", "    " + call, "else:", "    " + other]
            else:
                lines += [f"if mode == {3 - mode}:", "    " + other, "else:", "    " + call]
            branched += 1
        anims.append(a)
    user_sleep = draw(st.sampled_from([None, None, 0, 3]))
    lines += ["while True:", "    mon.write('@L')"] + ([f"    sleep({user_sleep})"] if user_sleep is not None else [])
    b = max(bound(len(a["text"]), cols) for a in anims)
    n = min(3 * b + 6, 420)
    sp = max(a["speed"] for a in anims)
    choices = [0, 1, max(sp - 1, 0), sp, sp + 1, 5 * sp]
    jitter = [draw(st.sampled_from(choices)) for _ in range(n)]
    if draw(st.booleans()):
        jitter[0] = 0
    t0 = draw(st.sampled_from([0, 0, 7000]))
    if draw(st.integers(0, 3)) == 0:
        # shortly before the 32-bit millis() wrap: run on the build whose `unsigned long` is 32 bits wide, as on the board
        t0 = (2**32 - draw(st.sampled_from([1, 2, 50, 500, 3000, sp + 1, 2 * sp + 7]))) * 1000
    return {"src": "\n".join(lines) + "\n", "cols": cols, "rows": rows, "anims": anims, "n": n, "jitter": jitter, "t0_us": t0, "bound": b,
            "nt": any(len(a["text"]) > cols for a in anims) or any(a["speed"] > 0 for a in anims) or len(anims) > 1, "branched": branched}


def eval_device(case):
    mk = lambda b, e, o: {"bucket": b, "case": case, "expected": str(e), "observed": str(o)}
    try:
        cpp = fb.transpile(case["src"])
    except ValueError as e:
        return "rejected:" + str(e)[:40], []
    with fb.Workdir("c18") as wd:
        try:
            exe = fb.build(fb.avr_ulong(cpp) if case["t0_us"] >= 2**31 * 1000 else cpp, wd)
        except fb.CompileError as e:
            return "FAIL", [mk("compile-error", "compiles", str(e)[:300])]
        trace = fb.run(exe, case["n"], fb.make_tape(t0_us=case["t0_us"], jitter=case["jitter"], budget=2_000_000), wd, timeout=300)
    if trace.status != "ok":
        return "FAIL", [mk("firmware-" + trace.status, "runs", trace.stderr[-200:])]
    cols = case["cols"]
    rows_anim = {a["row"]: a for a in case["anims"]}
    phase = None
    pass_idx = -1
    seen_user = False
    frames = {r: [] for r in rows_anim}   # row -> list of (pass, t_us)
    pass_t = {}
    cur_frame = None
    for t, k, a in trace.events:
        p = a.split()
        if k == "==":
            phase = a
            if a.startswith("loop"):
                pass_idx = int(a.split()[1])
                pass_t[pass_idx] = t
                seen_user = False
            cur_frame = None
            continue
        if k == "DELAY":
            if phase == "setup":
                return "FAIL", [mk("animate-blocks", "no delay() while starting an animation", f"DELAY {a} in setup()")]
            if not seen_user:
                return "FAIL", [mk("tick-delays", "no delay() before the first user statement of a pass", f"pass {pass_idx}: DELAY {a}")]
        if k == "SER" and a == "@L":
            seen_user = True
            cur_frame = None
        if k in ("LCD_OOB", "LCD_USE_BEFORE_BEGIN"):
            return "FAIL", [mk("frame-outside-display", "writes inside the display", f"{k} {a}")]
        if k.startswith("LCD_") and phase and phase.startswith("loop"):
            if seen_user:
                return "FAIL", [mk("tick-after-user-code", "animation advanced before the user statements", f"pass {pass_idx}: {k} {a}")]
            if k == "LCD_CURSOR":
                c, r = int(p[1]), int(p[2])
                if r not in rows_anim:
                    return "FAIL", [mk("frame-touches-other-row", f"rows {sorted(rows_anim)}", f"setCursor({c},{r})")]
                if cur_frame is None or cur_frame["row"] != r:
                    # a frame starts by clearing its row from column 0
                    cur_frame = {"row": r, "puts": 0, "pass": pass_idx, "t": t, "clear": True, "start_col": c}
                    frames[r].append(cur_frame)
                else:
                    cur_frame["clear"] = False  # the clear phase ends at the next setCursor
            elif k == "LCD_PUT":
                c, r = int(p[1]), int(p[2])
                if r not in rows_anim:
                    return "FAIL", [mk("frame-touches-other-row", f"rows {sorted(rows_anim)}", f"put at ({c},{r})")]
                if cur_frame is not None and cur_frame["row"] == r and cur_frame["clear"]:
                    cur_frame["puts"] += 1
    n = case["n"]
    for r, a in rows_anim.items():
        fr = frames[r]
        b = bound(len(a["text"]), cols)
        for f in fr:
            if f["puts"] != cols or f["start_col"] != 0:
                return "FAIL", [mk("frame-not-display-width", f"row cleared over exactly {cols} cells", f"{f['puts']} cells in pass {f['pass']}")]
        per_pass = {}
        for f in fr:
            per_pass[f["pass"]] = per_pass.get(f["pass"], 0) + 1
        if any(v > 1 for v in per_pass.values()):
            return "FAIL", [mk("advanced-more-than-once-per-pass", "one step per pass", {k: v for k, v in per_pass.items() if v > 1})]
        if not a["loop"]:
            if len(fr) > b + 1:
                return "FAIL", [mk(f"does-not-finish:{a['style']}", f"<= {b + 1} frames for a non-looping {a['style']} of {len(a['text'])} chars on {cols} cols", f"{len(fr)} frames, last in pass {fr[-1]['pass']}")]
        elif a["speed"] <= 1:
            tail = [f for f in fr if f["pass"] >= 2 * n // 3]
            if not tail and not (a["style"] == "bounce" and 0 < len(a["text"]) < cols and False):
                return "FAIL", [mk(f"looping-animation-stopped:{a['style']}", "still stepping in the last third of the run", f"{len(fr)} frames, last in pass {fr[-1]['pass'] if fr else None} of {n}")]
        if a["loop"]:
            # a looping animation never rests: once it has stepped, it steps again in the first pass whose tick comes speed_ms or more later
            m_last = None
            by_pass = {f["pass"]: f for f in fr}
            if 0 in pass_t and 0 not in by_pass:
                return "FAIL", [mk(f"looping-animation-stopped:{a['style']}", "the first tick after animate() paints the first frame", f"no frame in pass 0; {len(fr)} frames in all")]
            for p_ in sorted(pass_t):
                tick_ms = pass_t[p_] // 1000
                f = by_pass.get(p_)
                if m_last is not None and (m_last & 0xffffffff) != 0 and tick_ms - m_last >= a["speed"] and f is None:
                    return "FAIL", [mk(f"looping-animation-stopped:{a['style']}", f"a step in pass {p_} ({tick_ms - m_last} ms after the previous step, speed_ms={a['speed']})", f"no frame; {len(fr)} frames in all, last in pass {fr[-1]['pass']}")]
                if f is not None:
                    m_last = f["t"] // 1000
        # rate limit
        for f1, f2 in zip(fr, fr[1:]):
            m1, m2 = f1["t"] // 1000, f2["t"] // 1000
            if (m1 & 0xffffffff) > 0 and m2 - m1 < a["speed"]:   # a step stamped millis() == 0 (start-up, or the very millisecond of the 32-bit wrap) reads as "not stepped yet"
                return "FAIL", [mk("steps-faster-than-speed_ms", f">= {a['speed']} ms between steps", f"{m2 - m1} ms (passes {f1['pass']}->{f2['pass']})")]
        if a["speed"] == 0 and a["loop"] and len(fr) < n - 1:
            return "FAIL", [mk("not-advanced-every-pass", f"one step in each of {n} passes (speed_ms=0, looping)", f"{len(fr)} frames")]
    return "ok", []


# ------------------------------------------------------------------ host histories
@st.composite
def host_case(draw):
    cols = draw(st.sampled_from([1, 2, 8, 16, 40]) | st.integers(1, 40))
    rows = draw(st.integers(1, 4))
    ops = []
    now = draw(st.sampled_from([1, 1, 5, 1000]))
    for _ in range(draw(st.integers(1, 3))):
        n = draw(st.sampled_from([0, max(0, cols - 1), cols, cols + 3]) | st.integers(0, cols + 6))
        ops.append({"op": "animate", "style": draw(st.sampled_from(STYLES + ["SCROLL", "Blink"])), "row": draw(st.integers(0, rows - 1)),
                    "text": draw(st.text(alphabet="abcxyz019 ", min_size=n, max_size=n)), "speed": draw(st.sampled_from(SPEEDS + [-5, 3])), "loop": draw(st.booleans())})
    nticks = draw(st.integers(5, 60))
    second = draw(st.integers(0, 2)) == 0   # a second, smaller display lives in the same process: the two must not know of each other
    have_other = False
    for _ in range(nticks):
        k = draw(st.integers(0, 12))
        if second and k in (2, 3):
            if not have_other:
                ops.append({"op": "other_new", "cols": draw(st.sampled_from([1, 5, 16])), "rows": draw(st.integers(1, 2)), "anim": draw(st.sampled_from([None, "scroll", "blink"]))})
                have_other = True
            else:
                now += draw(st.sampled_from([0, 1, 50, 1000]))
                ops.append({"op": "other_tick", "now": now})
            continue
        if k == 0 and len([o for o in ops if o["op"] == "animate"]) < 4:
            n = draw(st.integers(0, cols + 4))
            ops.append({"op": "animate", "style": draw(st.sampled_from(STYLES)), "row": draw(st.integers(0, rows - 1)), "text": draw(st.text(alphabet="abcxyz", min_size=n, max_size=n)),
                        "speed": draw(st.sampled_from(SPEEDS)), "loop": draw(st.booleans())})
        elif k == 1:
            ops.append({"op": "tick_none"})
        else:
            now += draw(st.sampled_from([0, 1, 49, 50, 51, 199, 200, 201, 999, 1000, 5000]))
            ops.append({"op": "tick", "now": now})
    return {"cols": cols, "rows": rows, "ops": ops}


def shared_row(lcd, stt):
    """Two animations on one row repaint each other's cells: step detection by row content is ambiguous there."""
    return sum(1 for o in lcd.animations.values() if o.row == stt.row and o.active) > 1 or sum(1 for o in lcd.animations.values() if o.row == stt.row) > 1


def eval_host(case):
    from Reduino.Displays import LCD

    mk = lambda b, e, o: {"bucket": b, "case": case, "expected": str(e), "observed": str(o)}
    cols, rows = case["cols"], case["rows"]
    lcd = LCD(i2c_addr=0x27, cols=cols, rows=rows)
    steps = {}     # animation key -> times of the ticks at which the animation visibly stepped
    sigs = {}
    counts = {}
    due, last_tick = {}, {}
    anim_rows = set()
    other = None
    for i, op in enumerate(case["ops"]):
        before = list(lcd.buffer)
        if op["op"] in ("other_new", "other_tick"):
            keys_before = {k: (v.active, v.offset, v.visible, v.show, v.cycles) for k, v in lcd.animations.items()}
            try:
                if op["op"] == "other_new":
                    other = LCD(i2c_addr=0x3F, cols=op["cols"], rows=op["rows"])
                    other.begin() if hasattr(other, "begin") else None
                    if op["anim"]:
                        other.animate(op["anim"], 0, "zz", speed_ms=0, loop=True)
                elif other is not None:
                    other.tick(op["now"])
            except Exception as e:
                return "FAIL", [mk("host-tick-raises", "a second display never raises either", f"op {i} {op}: {e!r}")]
            keys_after = {k: (v.active, v.offset, v.visible, v.show, v.cycles) for k, v in lcd.animations.items()}
            if keys_after != keys_before or list(lcd.buffer) != before:
                return "FAIL", [mk("host-displays-share-state", "an operation on another LCD object leaves this one's animations and rows alone", f"op {i} {op}: {len(keys_before)} -> {len(keys_after)} animations")]
            if other is not None and (len(other.buffer) != op.get("rows", len(other.buffer)) or any(len(r) != other.cols for r in other.buffer)):
                return "FAIL", [mk("host-row-length", "second display keeps its geometry", [len(r) for r in other.buffer])]
            continue
        try:
            if op["op"] == "animate":
                lcd.animate(op["style"], op["row"], op["text"], speed_ms=op["speed"], loop=op["loop"])
                anim_rows.add(op["row"])
            elif op["op"] == "tick":
                lcd.tick(op["now"])
            else:
                lcd.tick()
        except Exception as e:
            return "FAIL", [mk("host-tick-raises" if op["op"] != "animate" else "host-animate-raises", "never raises", f"op {i} {op}: {e!r}")]
        if len(lcd.buffer) != rows or any(len(r) != cols for r in lcd.buffer):
            return "FAIL", [mk("host-row-length", f"{rows} rows of {cols}", [len(r) for r in lcd.buffer])]
        for r in range(rows):
            if r not in anim_rows and lcd.buffer[r] != before[r]:
                return "FAIL", [mk("host-frame-touches-other-row", f"row {r} untouched", lcd.buffer[r])]
        for key, stt in lcd.animations.items():
            tl = steps.setdefault(key, [])
            sig = (stt.offset, stt.visible, stt.show, stt.cycles, stt.active)  # the animation's own state: a change = one step
            prev_sig = sigs.get(key)
            sigs[key] = sig
            if op["op"] == "tick" and prev_sig is not None and sig != prev_sig:
                # this animation stepped at time `now`
                if tl and tl[-1] > 0 and op["now"] - tl[-1] < stt.speed_ms and not shared_row(lcd, stt):
                    return "FAIL", [mk("host-steps-faster-than-speed_ms", f">= {stt.speed_ms} ms between steps of {stt.animation}", f"{op['now'] - tl[-1]} ms (at {tl[-1]} and {op['now']})")]
                tl.append(op["now"])
            elif op["op"] == "tick_none" and prev_sig is not None and sig != prev_sig:
                tl.append(0)
            if op["op"] == "tick" and stt.active is False:
                counts.setdefault(key, len(tl))
            b = bound(len(stt.text), cols)
            if op["op"] == "tick":
                # ticks that come speed_ms or more after the previous tick are due for every animation (its last step is at least that old)
                lt = last_tick.get(key)
                if lt is None or op["now"] - lt >= stt.speed_ms:
                    due[key] = due.get(key, 0) + 1
                last_tick[key] = op["now"]
                if not stt.loop and stt.active and due.get(key, 0) > b + 3 and not shared_row(lcd, stt):
                    return "FAIL", [mk(f"host-does-not-finish:{stt.animation}", f"inactive within {b + 1} steps", f"still active after {due[key]} due ticks ({len(tl)} steps)")]
            if not stt.loop and stt.active and len(tl) > b + 1:
                return "FAIL", [mk(f"host-does-not-finish:{stt.animation}", f"inactive within {b + 1} steps", f"{len(tl)} steps, still active")]
            if stt.loop and not stt.active:
                return "FAIL", [mk(f"host-looping-animation-stopped:{stt.animation}", "looping animation stays active", f"inactive after {len(tl)} steps")]
    return "ok", []


def plan(tier):
    q = tier == "quick"
    units = [(f"device-{i}", {"what": "device", "n": 12 if q else 200}) for i in range(12)]
    units += [(f"host-{i}", {"what": "host", "n": 500 if q else 25000}) for i in range(4)]
    return units


def run_shard(name, seed, tier, what, n):
    r = Result()
    found = {}
    strat = device_case() if what == "device" else host_case()
    ev = eval_device if what == "device" else eval_host

    @hseed(seed)
    @hyp_settings(n, phases=(Phase.generate,))
    @given(strat)
    def prop(case):
        status, fails = ev(case)
        r.count(f"{what}:{status.split(':')[0]}")
        if what == "device":
            nt = case["nt"]
            small = {"src": case["src"], "n": case["n"], "jitter": case["jitter"][:10]}
        else:
            an = [o for o in case["ops"] if o["op"] == "animate"]
            nt = any(len(o["text"]) > case["cols"] for o in an) or len(an) > 1 or any(o["speed"] > 0 for o in an)
            small = case
        r.case(small if len(r.samples) < 1 else {"h": hash(repr(case)) & 0xffffffff}, status == "ok" and nt)
        for fl in fails:
            if fl["bucket"] not in found or len(repr(case)) < len(repr(found[fl["bucket"]]["case"])):
                found[fl["bucket"]] = fl

    prop()
    r.failures = list(found.values())
    return r


def replay(case):
    if "src" in case:
        return eval_device(case)[1][:1]
    return eval_host(case)[1][:1]
