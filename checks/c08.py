"""C08 - device calls bind arguments exactly like the Python signatures do.

Finite enumeration of call shapes driven by inspect.signature of the host classes; two oracles:
 (1) Python's own binder: sig.bind(...).apply_defaults() -> parameter values; the IR node produced by parse() must
     carry exactly those values (through a parameter->field table), or parse must raise ValueError;
 (2) table-free: all accepted shapes with the same bound arguments must emit byte-identical C++.
Shapes the host class itself rejects (TypeError / ValueError when really called) are outside the property.
"""
from __future__ import annotations

import inspect
import itertools
import re

from hypothesis import given, seed as hseed, strategies as st

from vlib.runner import Result, hyp_settings

ID = "C08"
LEVEL = "exploration"
RULE = (
    "For every public constructor/method of Led, RGBLed, Buzzer, Servo, DCMotor, LCD, Button, Potentiometer, Ultrasonic, "
    "SerialMonitor and the five Core helpers, every positional/keyword split the signature admits, every subset of omitted "
    "defaults and every keyword order (all permutations up to 4 keywords, 24 sampled beyond) is generated with distinct "
    "sentinel values per parameter, in up to six spellings of the same call (`k=v`, `k = v`, `k =v`, tabs, padded parentheses) and with one supplied argument "
    "at the falsy value of its type (0, 0.0, False: supplied-and-zero is not not-supplied); shapes the host class rejects when actually called are dropped. Oracle: Python's "
    "binder (bind + apply_defaults) vs the IR node fields, and byte-identical C++ among accepted shapes with equal bound "
    "arguments. Non-trivial = shape with >=1 keyword argument or >=1 omitted default. The random part additionally renders "
    "arguments as run-time variables. distinct = distinct call text."
)
ASSUMPTIONS = [
    "parameter->IR field table (identity except ~8 renamed fields) is part of the harness",
    "host-only parameters (state_provider, value_provider, distance_provider, default_distance, port, timeout, newline) have no device meaning: they may be passed, only the device-relevant parameters are compared",
]

INTS = [11, 23, 37, 41, 53, 67, 71, 83, 97, 101, 103]


def _classes():
    from Reduino.Actuators import Buzzer, DCMotor, Led, RGBLed, Servo
    from Reduino.Communication import SerialMonitor
    from Reduino.Displays import LCD
    from Reduino.Sensors import Button, Potentiometer, Ultrasonic
    import Reduino.Core as Core

    return dict(Led=Led, RGBLed=RGBLed, Buzzer=Buzzer, Servo=Servo, DCMotor=DCMotor, LCD=LCD, Button=Button,
                Potentiometer=Potentiometer, Ultrasonic=Ultrasonic, SerialMonitor=SerialMonitor, Core=Core)


# spec: key -> dict(owner, method|None, node, fields{param:field}, values{param:python value}, decl (script line declaring the device),
#                   call template, host_only set, expr (True if the call is an expression))
DECL = {
    "Led": "dev = Led(13)", "RGBLed": "dev = RGBLed(3, 5, 6)", "Buzzer": "dev = Buzzer(8)", "Servo": "dev = Servo(9)",
    "DCMotor": "dev = DCMotor(2, 4, 5)", "LCD": "dev = LCD(rs=12, en=11, d4=5, d5=4, d6=3, d7=2, backlight_pin=10)",
    "SerialMonitor": "dev = SerialMonitor(9600)",
}
HOST_ONLY = {"state_provider", "value_provider", "distance_provider", "default_distance", "port", "timeout", "newline"}
HOST_ONLY_VALUES = {"state_provider": None, "value_provider": None, "distance_provider": None, "default_distance": 7.5,
                    "port": None, "timeout": 2.0, "newline": "\n"}

SPECS = {
    ("Led", None): dict(node="LedDecl", values={"pin": 7}),
    ("Led", "set_brightness"): dict(node="LedSetBrightness", values={"value": 77}),
    ("Led", "blink"): dict(node="LedBlink", values={"duration_ms": 41, "times": 3}),
    ("Led", "fade_in"): dict(node="LedFadeIn", values={"step": 7, "delay_ms": 23}),
    ("Led", "fade_out"): dict(node="LedFadeOut", values={"step": 7, "delay_ms": 23}),
    ("Led", "flash_pattern"): dict(node="LedFlashPattern", values={"pattern": [1, 0, 128], "delay_ms": 37}),
    ("RGBLed", None): dict(node="RGBLedDecl", values={"red_pin": 3, "green_pin": 5, "blue_pin": 6}),
    ("RGBLed", "set_color"): dict(node="RGBLedSetColor", values={"red": 11, "green": 23, "blue": 37}),
    ("RGBLed", "on"): dict(node="RGBLedOn", values={"red": 11, "green": 23, "blue": 37}),
    ("RGBLed", "fade"): dict(node="RGBLedFade", values={"red": 11, "green": 23, "blue": 37, "duration_ms": 410, "steps": 7}),
    ("RGBLed", "blink"): dict(node="RGBLedBlink", values={"red": 11, "green": 23, "blue": 37, "times": 3, "delay_ms": 53}),
    ("Buzzer", None): dict(node="BuzzerDecl", values={"pin": 6, "default_frequency": 523.0}),
    ("Buzzer", "play_tone"): dict(node="BuzzerPlayTone", values={"frequency": 659, "duration_ms": 41}),
    ("Buzzer", "beep"): dict(node="BuzzerBeep", values={"frequency": 659, "on_ms": 41, "off_ms": 53, "times": 3}),
    ("Buzzer", "sweep"): dict(node="BuzzerSweep", values={"start_hz": 211, "end_hz": 877, "duration_ms": 410, "steps": 7}),
    ("Buzzer", "melody"): dict(node="BuzzerMelody", fields={"name": "melody"}, values={"name": "siren", "tempo": 97}),
    ("Servo", None): dict(node="ServoDecl", values={"pin": 6, "min_angle": 11.0, "max_angle": 167.0, "min_pulse_us": 637, "max_pulse_us": 2111}),
    ("Servo", "write"): dict(node="ServoWrite", values={"angle": 67}),
    ("Servo", "write_us"): dict(node="ServoWriteMicroseconds", fields={"pulse": "pulse_us"}, values={"pulse": 1511}),
    ("DCMotor", None): dict(node="DCMotorDecl", values={"in1": 2, "in2": 4, "enable": 5}),
    ("DCMotor", "set_speed"): dict(node="DCMotorSetSpeed", fields={"value": "speed"}, values={"value": 0.25}),
    ("DCMotor", "backward"): dict(node="DCMotorBackward", values={"speed": 0.25}),
    ("DCMotor", "ramp"): dict(node="DCMotorRamp", values={"target_speed": 0.75, "duration_ms": 410}),
    ("DCMotor", "run_for"): dict(node="DCMotorRunFor", values={"duration_ms": 410, "speed": 0.75}),
    ("LCD", None): dict(node="LCDDecl", values={"rs": 12, "en": 11, "d4": 5, "d5": 4, "d6": 3, "d7": 2, "cols": 20, "rows": 4, "rw": 7,
                                               "backlight_pin": 10, "i2c_addr": 39}),
    ("LCD", "line"): dict(node="LCDLine", values={"row": 1, "text": "tA", "align": "right", "clear_row": False}),
    ("LCD", "write"): dict(node="LCDWrite", values={"col": 3, "row": 1, "text": "tA", "align": "center", "clear_row": False}),
    ("LCD", "message"): dict(node="LCDMessage", values={"top": "tT", "bottom": "tB", "top_align": "right", "bottom_align": "center", "clear_rows": False}),
    ("LCD", "display"): dict(node="LCDDisplay", values={"on": False}),
    ("LCD", "backlight"): dict(node="LCDBacklight", values={"on": False}),
    ("LCD", "brightness"): dict(node="LCDBrightness", values={"level": 77}),
    ("LCD", "glyph"): dict(node="LCDGlyph", values={"slot": 3, "bitmap": [1, 2, 4, 8, 16, 31, 0, 21]}),
    ("LCD", "progress"): dict(node="LCDProgress", values={"row": 1, "value": 37, "max_value": 83, "width": 7, "style": "hash", "label": "Lb"}),
    ("LCD", "animate"): dict(node="LCDAnimate", values={"animation": "bounce", "row": 1, "text": "tA", "speed_ms": 41, "loop": True}),
    ("Button", None): dict(node="ButtonDecl", values={"pin": 4, "on_click": "@cb"}),
    ("Potentiometer", None): dict(node="PotentiometerDecl", values={"pin": "A3"}),
    ("Ultrasonic", None): dict(node="UltrasonicDecl", fields={"sensor": "model", "model": "model"}, values={"trig": 6, "echo": 7, "sensor": "hc_sr04", "model": "HC-SR04"}),
    ("SerialMonitor", None): dict(node="SerialMonitorDecl", fields={"baud_rate": "baud"}, values={"baud_rate": 57600}),
    ("SerialMonitor", "write"): dict(node="SerialWrite", values={"value": 77}),
    ("Core", "pin_mode"): dict(cfunc="pinMode", values={"pin": 7, "mode": "@OUTPUT"}),
    ("Core", "digital_write"): dict(cfunc="digitalWrite", values={"pin": 7, "value": 1}),
    ("Core", "analog_write"): dict(cfunc="analogWrite", values={"pin": 6, "value": 77}),
    ("Core", "digital_read"): dict(cfunc="digitalRead", values={"pin": 7}, expr=True),
    ("Core", "analog_read"): dict(cfunc="analogRead", values={"pin": "@A2"}, expr=True),
}


def signature_of(classes, owner, method):
    if owner == "Core":
        fn = getattr(classes["Core"], method)
        return inspect.signature(fn), fn
    cls = classes[owner]
    if method is None:
        sig = inspect.signature(cls)
        return sig, cls
    fn = getattr(cls, method)
    sig = inspect.signature(fn)
    params = list(sig.parameters.values())[1:]  # drop self
    return sig.replace(parameters=params), fn


def render(v):
    if isinstance(v, str) and v.startswith("@"):
        return v[1:]
    return repr(v)


def shapes_for(sig, values, rnd=None):
    """Yield (positional list, keyword list of (name, value)) for every admissible split/omission/order."""
    params = list(sig.parameters.values())
    pos = [p for p in params if p.kind in (p.POSITIONAL_ONLY, p.POSITIONAL_OR_KEYWORD)]
    kwo = [p for p in params if p.kind == p.KEYWORD_ONLY]
    for k in range(len(pos), -1, -1):
        rest = pos[k:] + kwo
        if any(p.kind == p.POSITIONAL_ONLY for p in pos[k:]):
            continue
        choices = []
        for p in rest:
            opts = [True]
            if p.default is not p.empty:
                opts.append(False)
            choices.append(opts)
        for pick in itertools.product(*choices):
            kws = [p.name for p, use in zip(rest, pick) if use]
            if len(kws) <= 4:
                orders = list(itertools.permutations(kws))
            else:
                orders = [tuple(kws), tuple(reversed(kws))]
                import random as _r

                rr = _r.Random(len(kws) * 1000 + k)
                for _ in range(22):
                    o = list(kws)
                    rr.shuffle(o)
                    orders.append(tuple(o))
                orders = list(dict.fromkeys(orders))
            for order in orders:
                yield [p.name for p in pos[:k]], list(order)


def host_accepts(classes, owner, method, target, args, kwargs):
    """Really call the host class: shapes Python rejects are outside the property."""
    def real(v):
        if isinstance(v, str) and v.startswith("@"):
            name = v[1:]
            if name == "cb":
                return lambda: None
            if hasattr(classes["Core"], name):
                return getattr(classes["Core"], name)
            return name  # analogue pin label such as A2
        return v

    a = [real(v) for v in args]
    kw = {k: real(v) for k, v in kwargs.items()}
    import Reduino.Actuators as A

    orig = A.sleep
    A.sleep = lambda *x, **y: None
    try:
        if owner == "Core" or method is None:
            target(*a, **kw)
        else:
            inst = {
                "Led": lambda: classes["Led"](13), "RGBLed": lambda: classes["RGBLed"](3, 5, 6), "Buzzer": lambda: classes["Buzzer"](8),
                "Servo": lambda: classes["Servo"](9, max_pulse_us=2400), "DCMotor": lambda: classes["DCMotor"](2, 4, 5),
                "LCD": lambda: classes["LCD"](rs=12, en=11, d4=5, d5=4, d6=3, d7=2, backlight_pin=10, rows=2),
                "SerialMonitor": lambda: classes["SerialMonitor"](9600),
            }[owner]()
            getattr(inst, method)(*a, **kw)
        return True
    except (TypeError, ValueError):
        return False
    finally:
        A.sleep = orig


def norm(v):
    """Normalise an IR field / expected value for comparison."""
    if v is None or isinstance(v, bool):
        return v
    if isinstance(v, (int, float)):
        return float(v)
    if isinstance(v, (list, tuple)):
        return [norm(x) for x in v]
    if isinstance(v, str):
        s = v.strip()
        while s.startswith("(") and s.endswith(")"):
            s = s[1:-1].strip()
        if len(s) >= 2 and s[0] == '"' and s[-1] == '"':
            return "S:" + s[1:-1]
        if s in ("true", "false"):
            return s == "true"
        try:
            return float(s)
        except ValueError:
            return "N:" + s
    return repr(v)


def expected_norm(param, v):
    if isinstance(v, str):
        if v.startswith("@"):
            return "N:" + v[1:]
        if param in ("align", "top_align", "bottom_align", "style", "animation", "name"):
            return "N:" + v.lower()
        if param in ("sensor", "model"):
            return "N:" + v.strip().upper().replace("_", "-")
        if param == "pin":  # analogue pin literal 'A3'
            return "N:" + v
        return "S:" + v
    return norm(v)


def ir_norm(param, v):
    n = norm(v)
    if isinstance(v, str) and param in ("align", "top_align", "bottom_align", "style", "animation", "name", "sensor", "model", "on_click", "pin", "interface"):
        return "N:" + v
    return n


def full_call_text(classes, key, shift=1):
    """`dev.method(...)` with every parameter given positionally (sentinel values shifted, so nothing coincides with the call under test)."""
    owner, method = key
    sig, _ = signature_of(classes, owner, method)
    vals = dict(SPECS[key]["values"])
    args = []
    for name in sig.parameters:
        if name not in vals:
            break
        v = vals[name]
        if isinstance(v, bool):
            v = not v
        elif isinstance(v, int):
            v = v + shift
        elif isinstance(v, float):
            v = v + 0.5
        args.append(render(v))
    return f"dev.{method}({', '.join(args)})"


def build_script(owner, method, call_args, spec, prelude="", prefix=None):
    lines = []
    if owner == "Button":
        lines += ["def cb():", "    pass"]
    if prelude:
        lines.append(prelude)
    if prefix is not None and method is not None and owner != "Core":
        # the call under test is the last statement of a block that already ran other calls on the same device: nothing of an earlier
        # statement (its arguments, its resolved defaults) may carry over into this one
        lines.append(DECL[owner])
        lines.append("while True:")
        lines += ["    " + p for p in prefix] + [f"    dev.{method}({call_args})"]
        return "\n".join(lines) + "\n"
    if owner == "Core":
        call = f"{method}({call_args})"
        lines.append(f"r = {call}" if spec.get("expr") else call)
    elif method is None:
        lines.append(f"dev = {owner}({call_args})")
    else:
        lines.append(DECL[owner])
        lines.append(f"dev.{method}({call_args})")
    return "\n".join(lines) + "\n"


def find_node(program, clsname):
    found = None
    for n in list(program.setup_body) + list(program.loop_body):
        if type(n).__name__ == clsname:
            found = n
    return found


# spellings of the same call that Python's tokenizer treats alike: (keyword/value separator, argument separator, padding inside the parentheses)
STYLES = [("=", ", ", ""), (" = ", ", ", ""), (" =", ",", ""), ("= ", ",  ", " "), ("  =  ", " , ", "  "), ("\t=\t", ",\t", "")]


def eval_shape(classes, key, posnames, kwnames, varmode=None, style=0, zero=None, after=False, none=None):
    """Returns (status, info): status in {'python-rejects','rejected','ok','fail'}; info carries failure or emitted text + bound key."""
    from Reduino.transpile.emitter import emit
    from Reduino.transpile.parser import parse

    owner, method = key
    spec = SPECS[key]
    sig, target = signature_of(classes, owner, method)
    values = dict(spec["values"])
    values.update({k: v for k, v in HOST_ONLY_VALUES.items() if k in sig.parameters})
    if none is not None and none in sig.parameters and sig.parameters[none].default is None:
        # the signature's own default written out: Python binds it exactly like the omitted argument
        values[none] = None
    if zero is not None and isinstance(values.get(zero), (bool, int, float)):
        # the falsy value of the parameter's type: "supplied, and zero" must not be read as "not supplied"
        values[zero] = type(values[zero])(0)
    args = [values[n] for n in posnames]
    kwargs = {n: values[n] for n in kwnames}
    try:
        bound = sig.bind(*args, **kwargs)
    except TypeError:
        return "python-rejects", None
    if not host_accepts(classes, owner, method, target, args, kwargs):
        return "python-rejects", None
    bound.apply_defaults()
    # render
    varmode = varmode or {}
    prelude_lines = []
    def rv(name, v):
        if varmode.get(name) and isinstance(v, (int, float)) and not isinstance(v, bool):
            prelude_lines.append(f"v_{name} = analog_read(A0) + {v!r}")
            return f"v_{name}"
        return render(v)
    eq, sep, pad = STYLES[style]
    parts = [rv(n, values[n]) for n in posnames] + [f"{n}{eq}{rv(n, values[n])}" for n in kwnames]
    call_args = pad + sep.join(parts) + pad if parts else ""
    prefix = None
    if after and method is not None and owner != "Core":
        prefix = [full_call_text(classes, k2) for k2 in SPECS if k2[0] == owner and k2[1] is not None and k2[1] not in ("flash_pattern", "glyph", "melody", "animate")]
    prefix = prefix or None
    script = build_script(owner, method, call_args, spec, "\n".join(prelude_lines), prefix)
    case = {"after": bool(prefix), "owner": owner, "method": method, "pos": posnames, "kw": kwnames, "var": sorted(k for k, v in varmode.items() if v), "script": script, "style": style, "zero": zero, "none": none}
    try:
        prog = parse(script)
        text = emit(prog)
    except ValueError:
        return "rejected", {"case": case}
    except Exception as e:  # rejected with an error of another type: the type is C11's business, not C08's
        return "rejected", {"case": case, "other": type(e).__name__}
    bkey = repr(sorted((k, repr(v)) for k, v in bound.arguments.items() if k not in HOST_ONLY)) + repr(sorted(case["var"])) + ("|after" if prefix else "")
    fails = []
    if "node" in spec:
        node = find_node(prog, spec["node"])
        if node is None:
            fails.append(("call-vanished", f"an IR node {spec['node']}", "no such node (call dropped or parsed as something else)"))
        else:
            fmap = spec.get("fields", {})
            for pname, pval in bound.arguments.items():
                if pname in HOST_ONLY:
                    continue
                fname = fmap.get(pname, pname)
                if not hasattr(node, fname):
                    continue
                got = getattr(node, fname)
                if varmode.get(pname) and isinstance(values.get(pname), (int, float)) and pname in posnames + kwnames:
                    want = "N:v_" + pname
                else:
                    want = expected_norm(pname, pval)
                g = ir_norm(pname, got)
                if pname in ("sensor", "model"):
                    if pval is None:
                        continue
                if g != want:
                    fails.append((f"misbound:{owner}.{method or '__init__'}:{pname}", f"{pname}={want!r}", f"{fname}={g!r} (raw {got!r})"))
            if owner == "LCD" and method is None:
                want_if = "i2c" if bound.arguments.get("i2c_addr") is not None else "parallel"
                if node.interface != want_if:
                    fails.append(("misbound:LCD.__init__:interface", want_if, node.interface))
    else:
        m = re.search(re.escape(spec["cfunc"]) + r"\(([^()]*)\)", text)
        if not m:
            fails.append(("call-vanished", f"{spec['cfunc']}(...) in the sketch", "absent"))
        else:
            got = [norm(x) for x in m.group(1).split(",")]
            want = [expected_norm(p, v) if not (varmode.get(p)) else "N:v_" + p for p, v in bound.arguments.items()]
            if got != want:
                fails.append((f"misbound:Core.{method}", want, got))
    if fails:
        b, e, o = fails[0]
        return "fail", {"bucket": b, "case": case, "expected": str(e), "observed": str(o)}
    return "ok", {"case": case, "text": text, "bkey": bkey}


def plan(tier):
    keys = list(SPECS)
    units = [(f"enum-{o}-{m or 'init'}", {"key": [o, m]}) for o, m in keys]
    n = 150 if tier == "quick" else 2500
    units += [(f"random-{i}", {"n": n}) for i in range(8)]
    units.append(("exprcalls", {}))
    return units


EXPR_HEAD = "from Reduino.Communication import SerialMonitor\nfrom Reduino.Utils import sleep\ndev = SerialMonitor(9600)\n"
EXPR_CONTEXTS = ["x = {c}\ndev.write(x)", "dev.write({c})", "if {c} == 'go':\n    sleep(1)", "while True:\n    y = {c}\n    dev.write(y)", "def rd():\n    return {c}\nz = rd()\ndev.write(z)"]


def run_exprcalls(r):
    """methods that are called inside expressions (no IR node of their own): the positional and the keyword spelling of one binding must be
    translated alike (or both refused)"""
    from Reduino.transpile.emitter import emit
    from Reduino.transpile.parser import parse

    def out(script):
        try:
            return emit(parse(script))
        except ValueError as e:
            return "ValueError"

    for val in ("'host'", "'mcu'", "'both'", "\"host\""):
        for ctx in EXPR_CONTEXTS:
            a = EXPR_HEAD + ctx.format(c=f"dev.read({val})") + "\n"
            for spelled in (f"dev.read(emit={val})", f"dev.read(emit = {val})", f"dev.read( emit={val} )"):
                b = EXPR_HEAD + ctx.format(c=spelled) + "\n"
                ta, tb = out(a), out(b)
                case = {"a": {"script": a, "owner": "SerialMonitor", "method": "read"}, "b": {"script": b, "owner": "SerialMonitor", "method": "read"}}
                r.evaluations += 1
                r.nontrivial_enum += 1
                if len(r.samples) < 1:
                    r.samples.append(case)
                if ta != tb:
                    r.failures.append({"bucket": "shapes-disagree:SerialMonitor.read", "case": case, "expected": "byte-identical C++", "observed": _first_diff(ta, tb) if "ValueError" not in (ta, tb) else f"{ta[:20]!r} vs {tb[:20]!r}"})
                    return
    r.exhaustive = True


def run_shard(name, seed, tier, **kw):
    classes = _classes()
    r = Result()
    if name == "exprcalls":
        run_exprcalls(r)
        return r
    if name.startswith("enum"):
        key = tuple(kw["key"])
        sig, _ = signature_of(classes, *key)
        groups = {}
        work = []
        for i, (posnames, kwnames) in enumerate(shapes_for(sig, SPECS[key]["values"])):
            styles = range(len(STYLES)) if tier != "quick" else ([0, 1 + i % (len(STYLES) - 1)] if (posnames or kwnames) else [0])
            work += [(posnames, kwnames, sty, None, False) for sty in styles]
            supplied = list(posnames) + list(kwnames)
            if supplied:
                # the same shape with one supplied argument at the falsy value of its type (rotating over the arguments; all of them in the thorough tier)
                zs = supplied if tier != "quick" else [supplied[i % len(supplied)], (kwnames or supplied)[i % len(kwnames or supplied)]]
                work += [(posnames, kwnames, 0, z, False) for z in dict.fromkeys(zs)]
            cands = [pn for pn in supplied if sig.parameters[pn].default is None]
            for pn in (cands if tier != "quick" else cands[i % len(cands): i % len(cands) + 1] if cands else []):
                work.append((posnames, kwnames, 0, None, False, pn))
            if key[1] is not None and len(supplied) < len(sig.parameters):
                # a shape that leaves defaults out, placed after full calls of every method of the device in the same block
                work.append((posnames, kwnames, 0, None, True))
        for item in work:
            posnames, kwnames, sty, zero = item[:4]
            after = item[4] if len(item) > 4 else False
            none = item[5] if len(item) > 5 else None
            st_, info = eval_shape(classes, key, posnames, kwnames, style=sty, zero=zero, after=after, none=none)
            if none:
                r.count("explicit_none_default")
            if after:
                r.count("after_other_calls")
            if sty:
                r.count("restyled_call")
            if zero:
                r.count("zero_valued_argument")
            if st_ == "python-rejects":
                r.count("python_rejects")
                continue
            r.evaluations += 1
            nt = bool(kwnames) or (len(posnames) + len(kwnames) < len(sig.parameters))
            if nt:
                r.nontrivial_enum += 1
            if st_ == "rejected":
                r.count("rejected_by_transpiler")
                continue
            if st_ == "fail":
                r.failures.append(info)
                continue
            r.count("accepted")
            groups.setdefault(info["bkey"], []).append(info)
            if nt and len(r.samples) < 1:
                r.samples.append(info["case"])
        for bkey, members in groups.items():
            ref = members[0]
            for m in members[1:]:
                if m["text"] != ref["text"]:
                    r.fail(f"shapes-disagree:{key[0]}.{key[1] or '__init__'}", {"a": ref["case"], "b": m["case"]},
                           "byte-identical C++ for equal bound arguments", _first_diff(ref["text"], m["text"]))
                    break
        r.exhaustive = True
        return r
    # random shapes with run-time variable arguments
    last = {}
    keys = sorted(SPECS, key=repr)

    @hseed(seed)
    @hyp_settings(kw["n"])
    @given(st.data())
    def prop(data):
        key = keys[data.draw(st.integers(0, len(keys) - 1))]
        sig, _ = signature_of(classes, *key)
        all_shapes = list(itertools.islice(shapes_for(sig, SPECS[key]["values"]), 4000))
        posnames, kwnames = all_shapes[data.draw(st.integers(0, len(all_shapes) - 1))]
        numeric = [n for n in posnames + kwnames if isinstance(SPECS[key]["values"].get(n), (int, float)) and not isinstance(SPECS[key]["values"].get(n), bool)]
        varmode = {n: data.draw(st.booleans()) for n in numeric}
        if key in (("LCD", None), ("Led", "flash_pattern"), ("LCD", "glyph")):
            varmode = {}
        st_, info = eval_shape(classes, key, posnames, kwnames, varmode, style=data.draw(st.integers(0, len(STYLES) - 1)))
        if st_ == "python-rejects":
            return
        case = info["case"]
        r.case(case, bool(kwnames) or any(varmode.values()))
        r.count(st_)
        if any(varmode.values()):
            r.count("with_runtime_variable")
        if st_ == "fail":
            last[info["bucket"]] = info
            raise AssertionError(info["bucket"])

    try:
        prop()
    except AssertionError:
        pass
    r.failures = list(last.values())
    return r


def _first_diff(a, b):
    la, lb = a.splitlines(), b.splitlines()
    for i, (x, y) in enumerate(zip(la, lb)):
        if x != y:
            return f"line {i}: {x!r} vs {y!r}"
    return f"lengths {len(la)} vs {len(lb)}"


def replay(case):
    from Reduino.transpile.emitter import emit
    from Reduino.transpile.parser import parse

    classes = _classes()
    if "a" in case and "b" in case:
        ta = emit(parse(case["a"]["script"]))
        tb = emit(parse(case["b"]["script"]))
        if ta != tb:
            return [{"bucket": f"shapes-disagree:{case['a']['owner']}.{case['a']['method'] or '__init__'}", "case": case,
                     "expected": "byte-identical C++", "observed": _first_diff(ta, tb)}]
        return []
    varmode = {n: True for n in case.get("var", [])}
    st_, info = eval_shape(classes, (case["owner"], case["method"]), case["pos"], case["kw"], varmode, style=case.get("style", 0), zero=case.get("zero"), after=case.get("after", False), none=case.get("none"))
    return [info] if st_ == "fail" else []
