"""C06 - accepted scripts always yield well-formed, compilable Arduino C++.

Validity predicate over the widest grammar profile (all devices and methods, helpers, hoisted variables, lists,
hostile printable string literals): for every accepted script the emitted text has exactly one setup() and one loop(),
compiles (g++ -fsyntax-only with AVR-like flags against the mock core) and - for a sample - links.
"""
from __future__ import annotations

import hashlib
import os
import re

from hypothesis import Phase, given, seed as hseed, strategies as st

from vlib import diff, fwbuild as fb, gen_script as gs, shrink
from vlib.runner import Result, hyp_settings

ID = "C06"
LEVEL = "exploration"
RULE = (
    "Hypothesis draws scripts from the widest profile of the typed grammar: every statement/expression form, every device kind "
    "(Led, RGBLed, Servo, DCMotor, Buzzer, Button, Potentiometer, Ultrasonic, parallel and I2C LCD; hoistable kinds also declared "
    "at the top of the main-loop body) with every method and getter, helpers using devices, lists, printable string literals from a "
    "hostile alphabet (quotes, backslash, #, %, braces); a second shard family feeds the type-flow scenario scripts of C02 (hoisted declarations, helper variants per call signature, promoted / shadowed / annotated parameters). No reference run is needed. Oracle: transpile -> ValueError (rejected, counted) "
    "or emitted text with exactly one `void setup()` / `void loop()` that g++ accepts with -std=gnu++11 -fno-exceptions -fpermissive "
    "against the mock Arduino core; every 4th accepted sketch is also linked. Non-trivial = accepted and contains a helper, a list, a device "
    "with >=2 method calls or a string literal with a character that needs escaping. distinct = distinct script."
)
ASSUMPTIONS = [
    "acceptance by host g++ against the mock core with AVR-like flags stands in for avr-g++ with the real core and libraries",
    "constructs of open compile-level findings (**, literal+literal string concatenation, try/except, forward helper calls, names first assigned in the main loop, helpers using ultrasonic/LCD state, unannotated non-int parameters) are off by construction; their witnesses run",
]

OFF = {"str_lit_plus_lit", "try", "loop_first_assign", "unannotated_param", "multi_signature", "retype", "branch_first_assign",
       "list_elem_assign", "helper_uses_late_helpers", "macro_effectful_arg", "for_bound_mutated"}
PROFILE = gs.Profile(name="compile", devices=0.8, loop_decl=0.35, hostile_strings=True, off=OFF, max_stmts=10, helpers=3)

SETUP_RE = re.compile(r"\bvoid\s+setup\s*\([^;{]*\)\s*\{")
LOOP_RE = re.compile(r"\bvoid\s+loop\s*\([^;{]*\)\s*\{")


def strip_literals(cpp):
    """Remove string/char literals and comments so token counts are not fooled by text."""
    out = []
    i = 0
    n = len(cpp)
    while i < n:
        c = cpp[i]
        if c == '"' or c == "'":
            q = c
            i += 1
            while i < n and cpp[i] != q:
                i += 2 if cpp[i] == "\\" else 1
            i += 1
            out.append(q + q)
        elif cpp.startswith("//", i):
            while i < n and cpp[i] != "\n":
                i += 1
        elif cpp.startswith("/*", i):
            j = cpp.find("*/", i + 2)
            i = n if j < 0 else j + 2
        else:
            out.append(c)
            i += 1
    return "".join(out)


def check_text(src, link=False):
    """Returns (status, bucket, detail)."""
    try:
        cpp = fb.transpile(src)
    except ValueError as e:
        return "rejected", "", str(e)
    except Exception as e:
        return "rejected-other", "", f"{type(e).__name__}: {e}"
    bare = strip_literals(cpp)
    ns, nl = len(SETUP_RE.findall(bare)), len(LOOP_RE.findall(bare))
    if ns != 1 or nl != 1:
        return "FAIL", "setup-loop-count", f"{ns} setup() and {nl} loop() definitions"
    with fb.Workdir("c6") as wd:
        if link:
            try:
                fb.build(cpp, wd)
            except fb.CompileError as e:
                return "FAIL", "compile-error:" + diff.norm_err(str(e)), str(e)
        else:
            err = fb.syntax_check(cpp, wd)
            if err:
                return "FAIL", "compile-error:" + diff.norm_err(err), err
    return "ok", "", cpp


def _err_sig(detail):
    """First compiler error with positions removed: the shrinker must keep *this* error, not merely the same kind."""
    m = re.search(r"error: (.*)", detail or "")
    return m.group(1) if m else (detail or "")[:80]


def nontrivial(feats, src):
    fs = set(feats)
    if fs & {"helper_def", "list_literal", "list_comp"}:
        return True
    if sum(1 for f in fs if f.startswith("device_call:")) >= 1:
        return True
    return bool(re.search(r"""['"].*[\\"#%'].*['"]""", src))


def plan(tier):
    n = 50 if tier == "quick" else 2500
    return [(f"gen-{i}", {"n": n}) for i in range(16)] + [(f"typeflow-{i}", {"n": 100 if tier == "quick" else 1500}) for i in range(8)]


def run_typeflow(name, seed, tier, n):
    """the type-flow scenario scripts of C02 (hoists, helper variants, promoted / shadowed / annotated parameters) under the compile oracle"""
    from checks import c02

    r = Result()
    found = {}

    @hseed(seed)
    @hyp_settings(n, phases=(Phase.generate,))
    @given(c02.program(frozenset(c02.OPEN_CLASSES)))
    def prop(case):
        src = case["src"]
        status, bucket, detail = check_text(src, link=False)
        r.count("typeflow:" + status)
        r.case({"src": src} if len(r.samples) < 1 else {"h": hash(src) & 0xffffffff}, status == "ok")
        if status == "FAIL" and (bucket not in found or len(src) < len(found[bucket][0])):
            found[bucket] = (src, detail)

    prop()
    for bucket, (src, detail) in found.items():
        r.fail(bucket, {"src": src}, "a complete sketch that compiles (or ValueError)", detail)
    return r


def run_shard(name, seed, tier, n):
    if name.startswith("typeflow"):
        return run_typeflow(name, seed, tier, n)
    r = Result()
    found = {}
    counter = [0]
    digests = []

    @hseed(seed)
    @hyp_settings(n, phases=(Phase.generate,))
    @given(gs.program_strategy(PROFILE))
    def prop(prog):
        src = gs.render(prog["nodes"])
        digests.append(src)
        counter[0] += 1
        status, bucket, detail = check_text(src, link=(counter[0] % 4 == 0))
        r.count("status:" + status)
        if status.startswith("rejected"):
            r.count(status + ":" + detail[:50])
        for f in prog["features"]:
            if f.startswith(("device", "helper", "list")):
                r.count("feature:" + f)
        r.case({"src": src} if len(r.samples) < 1 else {"h": hash(src) & 0xffffffff}, status == "ok" and nontrivial(prog["features"], src))
        if status == "FAIL":
            if bucket not in found or len(src) < len(found[bucket][0]):
                found[bucket] = (src, prog["nodes"], detail)

    prop()
    if os.environ.get("VERIF_DEBUG_DIGEST"):
        r.count(f"digest:{name}:{hashlib.md5(''.join(digests).encode()).hexdigest()[:8]}")
    for bucket, (src, nodes, detail) in found.items():
        sig = _err_sig(detail)

        def still(cand, bucket=bucket, sig=sig):
            st_, b, d = check_text(gs.render(cand))
            return st_ == "FAIL" and b == bucket and _err_sig(d) == sig
        small, evals = shrink.shrink_nodes(nodes, still, max_evals=80 if tier == "quick" else 250, protect=gs.is_decl)
        s2 = gs.render(small)
        st2, b2, d2 = check_text(s2, link=True)
        if st2 != "FAIL":
            s2, b2, d2 = src, bucket, detail
        r.fail(b2, {"src": s2}, "a complete sketch that compiles (or ValueError)", d2)
    return r


def replay(case):
    st_, b, d = check_text(case["src"], link=True)
    if st_ == "FAIL":
        return [{"bucket": b, "case": case, "expected": "a complete sketch that compiles (or ValueError)", "observed": d}]
    return []
