"""C05 - setup()/loop() split: run-once prologue, repeated body, configure-before-use, injected housekeeping.

Scripts are generated from a phase-oriented grammar (devices of every hoistable kind declared before the main loop or
as the first statements of its body, markers in source order, counters that persist across passes, buttons with and
without on_click, LCD animations) and run for N in 0..4 passes with an input tape.  The firmware trace is checked by
temporal monitors derived from the script (which pins belong to which device, which markers were written where).
"""
from __future__ import annotations

import re

from hypothesis import Phase, given, seed as hseed, strategies as st

from vlib import fwbuild as fb
from vlib.runner import Result, hyp_settings

ID = "C05"
LEVEL = "exploration"
RULE = (
    "Hypothesis draws a phase script: a subset of {Led, RGBLed, Servo, DCMotor, Button(+on_click), Potentiometer, Ultrasonic} each declared "
    "in the prologue or at the top of the `while True:` body, Buzzer/LCD(+animation)/SerialMonitor in the prologue, prologue and body statements "
    "(device commands, reads, sleeps, counters, nested for/if, continue) interleaved with numbered markers, optionally no main loop at all, optionally a "
    "`break` whose innermost loop is the main loop; N in 0..4 and a random tape. Monitors on the firmware trace: (m1) prologue markers once, in order, "
    "before pass 0, and values snapshotted by prologue first-assignments (single / tuple) equal the running value at that source position, in setup() and in every pass; (m2) body markers once per pass in order, counters continue across passes; (m3) every device-owned pin/peripheral is configured "
    "before its first use and never re-configured to another mode, servo attached before written, LCD begun before printed, Serial begun before used, "
    "motor pins driven to a safe stop in setup; (m4) per pass exactly one digitalRead per button and all injected work before the first user marker "
    "with no delay; (m5) main-loop `break` rejected with ValueError. Non-trivial = has a main loop and (a device declared at the top of the body, or a "
    "persisting counter, or an injected poll/tick) and N>=2. distinct = distinct script + tape + N."
)
ASSUMPTIONS = ["mock Arduino core as observation device (pin modes, attach, begin are trace events)", "devices declared deeper than the top of the main-loop body are outside the property"]

HEAD = ("from Reduino.Actuators import Led, RGBLed, Servo, DCMotor, Buzzer\nfrom Reduino.Communication import SerialMonitor\nfrom Reduino.Displays import LCD\n"
        "from Reduino.Sensors import Button, Potentiometer, Ultrasonic\nfrom Reduino.Utils import sleep\n")

# kind -> (declaration, pins {pin: mode}, use statements)
DEV = {
    "led": ("led = Led(13)", {13: 1}, ["led.toggle()", "led.on()", "led.set_brightness(100)", "led.off()"]),
    "led2": ("led2 = Led(46)", {46: 1}, ["led2.on()", "led2.blink(2, 1)"]),
    "rgb": ("rgb = RGBLed(9, 10, 11)", {9: 1, 10: 1, 11: 1}, ["rgb.set_color(1, 2, 3)", "rgb.on()", "rgb.off()"]),
    "srv": ("srv = Servo(6)", {}, ["srv.write(90)", "srv.write_us(1500)", "mon.write(srv.read())"]),
    "mot": ("mot = DCMotor(32, 34, 33)", {32: 1, 34: 1, 33: 1}, ["mot.set_speed(0.5)", "mot.stop()", "mot.invert()", "mon.write(mot.get_mode())"]),
    "btn": ("btn = Button(7)", {7: 2}, ["mon.write(btn.is_pressed())", "mon.write(btn.is_pressed() + btn.is_pressed())"]),
    "btn2": ("btn2 = Button(38, on_click=clicked)", {38: 2}, ["mon.write(btn2.is_pressed())"]),
    "pot": ("pot = Potentiometer('A2')", {16: 0}, ["mon.write(pot.read())"]),
    "us": ("us = Ultrasonic(40, 41)", {40: 1, 41: 0}, ["mon.write(us.measure_distance())"]),
}
HOIST = ["led", "led2", "rgb", "srv", "mot", "btn", "btn2", "pot", "us"]
PRO_ONLY = {
    "bz": ("bz = Buzzer(8)", {8: 1}, ["bz.play_tone(440, 3)", "bz.stop()"]),
    "lcd": ("lcd = LCD(rs=22, en=23, d4=24, d5=25, d6=26, d7=27, backlight_pin=44)", {44: 1}, ["lcd.write(0, 0, 'hi')", "lcd.clear()", "lcd.brightness(100)"]),
    "lci": ("lci = LCD(i2c_addr=0x27)", {}, ["lci.line(1, 'yo')"]),
}


PV_WRAPS = [("{}", lambda v: v), ("min(200, {})", lambda v: min(200, v)), ("min({}, 200)", lambda v: min(v, 200)), ("max(1, {})", lambda v: max(1, v)), ("max({}, 1)", lambda v: max(v, 1)),
            ("min(200, max(1, {}))", lambda v: min(200, max(1, v))), ("({} + 1)", lambda v: v + 1), ("(2 * {})", lambda v: 2 * v), ("abs({})", abs), ("int({})", int),
            ("(3 + min(40, {}))", lambda v: 3 + min(40, v)), ("max(2, 1, {})", lambda v: max(2, 1, v)), ("({} if {} > 3 else 1)".replace("{}", "{0}"), lambda v: v if v > 3 else 1)]


@st.composite
def phase_script(draw):
    has_loop = draw(st.integers(0, 9)) > 0
    kinds = [k for k in HOIST if draw(st.booleans())]
    pro_kinds = [k for k in PRO_ONLY if draw(st.integers(0, 2)) == 0]
    where = {k: ("loop" if has_loop and draw(st.integers(0, 2)) == 0 else "pro") for k in kinds}
    lines = [HEAD.rstrip("\n")]
    if "btn2" in kinds:
        lines += ["def clicked():", "    mon.write('@C')"]
    mon_form = draw(st.sampled_from(["top", "top", "top", "else_taken", "if_taken", "twice"]))
    if mon_form == "top":
        lines.append("mon = SerialMonitor(9600)")
    elif mon_form == "twice":
        lines += ["mon = SerialMonitor(9600)", "mon = SerialMonitor(9600)"]
    else:
        # the monitor is opened in both arms of a branch (same rate): the arm that runs must open the port before the first print
        c = "1 > 2" if mon_form == "else_taken" else "2 > 1"
        lines += [f"if {c}:", "    mon = SerialMonitor(9600)", "else:", "    mon = SerialMonitor(9600)"]
    pins = {}
    info = {"pro_markers": [], "loop_markers": [], "loop_devices": [], "buttons": [], "has_loop": has_loop, "anim": False, "motor": "mot" in kinds,
            "servo_pin": 6 if "srv" in kinds else None, "counter": False, "lcds": 0}
    mk = [0]

    def marker(dst, store):
        m = f"@{'P' if store is info['pro_markers'] else 'L'}{mk[0]}"
        mk[0] += 1
        store.append(m)
        dst.append(f"mon.write('{m}')")

    pro = []
    for k in pro_kinds:
        d, p, _ = PRO_ONLY[k]
        pro.append(d)
        pins.update(p)
        if k in ("lcd", "lci"):
            info["lcds"] += 1
    for k in kinds:
        d, p, _ = DEV[k]
        pins.update(p)
        if where[k] == "pro":
            pro.append(d)
        else:
            info["loop_devices"].append(k)
        if k in ("btn", "btn2"):
            info["buttons"].append(7 if k == "btn" else 38)
    if draw(st.booleans()):
        form = draw(st.sampled_from(["plain", "plain", "ifelse", "for", "try_free_while"]))
        if form == "plain":
            pro.append("cnt = 0")
        elif form == "ifelse":  # first assignment inside a top-level if/else: the declaration is hoisted to a global
            pro += ["if 1 > 0:", "    cnt = 0", "else:", "    cnt = 0"]
        elif form == "for":
            pro += ["for q in range(1):", "    cnt = 0"]
        else:
            pro += ["wq = 1", "while wq > 0:", "    wq = wq - 1", "    cnt = 0"]
        info["counter"] = True
    # value-carrying prologue: pv is updated by run-once statements; snapshots (single and all-new tuple first assignments) taken at
    # various source positions must hold the value pv had *there*, in setup() and in every later pass
    info["pro_values"], info["loop_values"], info["pv_final"] = [], [], None
    pv = None
    snaps = []
    if draw(st.booleans()):
        pv = draw(st.integers(0, 9))
        pro.append(f"pv = {pv}")

    def value_step():
        nonlocal pv
        form = draw(st.sampled_from(["add", "add", "for", "if", "snap", "snap", "snap2"]))
        k = len(snaps)
        if form == "add":
            d = draw(st.integers(1, 5)); pro.append(f"pv = pv + {d}"); pv += d
        elif form == "for":
            pro.extend(["for q in range(2):", "    pv = pv + 1"]); pv += 2
        elif form == "if":
            pro.extend(["if pv >= 0:", "    pv = pv * 2"]); pv *= 2
        elif form == "snap":
            off = draw(st.integers(0, 3))
            pro.append(f"sn{k} = pv + {off}" if off else f"sn{k} = pv")
            snaps.append((f"sn{k}", pv + off))
        else:
            pro.append(f"sn{k}, sn{k + 1} = pv, pv * 10")
            snaps.extend([(f"sn{k}", pv), (f"sn{k + 1}", pv * 10)])
        for name, val in snaps[k:]:
            pro.append(f"mon.write('@V{name}=' + str({name}))")
            info["pro_values"].append(f"@V{name}={val}")

    # prologue statements
    avail_pro = [k for k in kinds if where[k] == "pro"] + pro_kinds
    for _ in range(draw(st.integers(1, 5))):
        marker(pro, info["pro_markers"])
        if pv is not None and draw(st.booleans()):
            value_step()
        if avail_pro and draw(st.booleans()):
            k = draw(st.sampled_from(avail_pro))
            uses = (DEV.get(k) or PRO_ONLY.get(k))[2]
            pro.append(draw(st.sampled_from(uses)))
        elif draw(st.booleans()):
            pro.append(f"sleep({draw(st.integers(0, 5))})")
    if ("lcd" in pro_kinds or "lci" in pro_kinds) and draw(st.booleans()):
        l = "lcd" if "lcd" in pro_kinds else "lci"
        styles = ['scroll', 'blink', 'typewriter', 'bounce']
        st0 = draw(st.sampled_from(styles))
        sp0, lp0 = draw(st.sampled_from([0, 1, 50])), draw(st.booleans())
        pro.append(f"{l}.animate('{st0}', 0, 'hello', speed_ms={sp0}, loop={lp0})")
        info["anim"] = True
        info["anim_rows"] = [[0, sp0, lp0]]
        if draw(st.booleans()):
            # a second animation on the other row, of the same kind half of the time: both are housekeeping of every pass
            st1 = st0 if draw(st.booleans()) else draw(st.sampled_from(styles))
            sp1, lp1 = draw(st.sampled_from([0, 0, 1, 50])), draw(st.sampled_from([True, True, False]))
            pro.append(f"{l}.animate('{st1}', 1, 'a longer text than the row holds', speed_ms={sp1}, loop={lp1})")
            info["anim_rows"].append([1, sp1, lp1])
    marker(pro, info["pro_markers"])
    lines += pro
    expect_reject = False
    if has_loop:
        body = [DEV[k][0] for k in info["loop_devices"]]
        if "led" in kinds and where["led"] == "pro" and draw(st.integers(0, 3)) == 0:
            # the same name declared before the loop on one pin and re-bound at the top of the body to another pin: both pins need their configuration
            body.append("led = Led(45)")
            pins[45] = 1
            info["rebound"] = True
        marker(body, info["loop_markers"])
        if info["counter"]:
            body += ["cnt = cnt + 1", "mon.write(cnt)"]
        if pv is not None:
            for name, val in snaps:
                body.append(f"mon.write('@W{name}=' + str({name}))")
                info["loop_values"].append(f"@W{name}={val}")
            body += ["pv = pv + 1", "mon.write('@X=' + str(pv))"]
            info["pv_final"] = pv
            if draw(st.booleans()):
                # the persisting value as (part of) a wait argument: the wait of pass i must follow the value of pass i, whatever expression carries it
                wi = draw(st.integers(0, len(PV_WRAPS) - 1))
                body += [f"sleep({PV_WRAPS[wi][0].format('pv')})", "mon.write('@Y')"]
                info["pv_wait"] = wi
        avail = kinds + [k for k in pro_kinds if not (info["anim"] and k in ("lcd", "lci"))]
        for _ in range(draw(st.integers(0, 5))):
            if avail and draw(st.booleans()):
                k = draw(st.sampled_from(avail))
                uses = (DEV.get(k) or PRO_ONLY.get(k))[2]
                stmt = draw(st.sampled_from(uses))
                form = draw(st.sampled_from(["plain", "plain", "if", "for"]))
                if form == "plain":
                    body.append(stmt)
                elif form == "if":
                    body += ["if 1 > 0:", "    " + stmt]
                else:
                    body += ["for k in range(2):", "    " + stmt]
            else:
                body.append(f"sleep({draw(st.integers(0, 4))})")
            marker(body, info["loop_markers"])
        if draw(st.integers(0, 7)) == 0:
            expect_reject = True
            form = draw(st.sampled_from(["direct", "if", "if_if", "else"]))
            body += {"direct": ["break"], "if": ["if 1 > 0:", "    break"], "if_if": ["if 1 > 0:", "    if 2 > 1:", "        break"],
                     "else": ["if 1 > 2:", "    sleep(1)", "else:", "    break"]}[form]
        elif draw(st.integers(0, 5)) == 0:
            # a legitimate break inside a nested loop, and a continue at main-loop level after the last marker
            body += ["for j in range(3):", "    if j == 1:", "        break", "if 1 > 0:", "    continue", "mon.write('@NEVER')"]
        lines.append("while True:")
        lines += ["    " + b for b in body]
    n = draw(st.integers(0, 4))
    tape = {"digital": {7: draw(st.lists(st.integers(0, 1), max_size=8)), 38: draw(st.lists(st.integers(0, 1), max_size=8))},
            "analog": {16: draw(st.lists(st.integers(0, 1023), max_size=8))}, "pulse": {41: draw(st.lists(st.sampled_from([0, 500, 1200, 5000]), max_size=8))},
            "jitter": draw(st.lists(st.integers(0, 100), max_size=5))}
    return {"src": "\n".join(lines) + "\n", "n": n, "tape": tape, "pins": pins, "info": info, "expect_reject": expect_reject}


def monitors(case, trace):
    """Return list of (bucket, expected, observed)."""
    info = case["info"]
    pins = {int(k): v for k, v in case["pins"].items()}
    n = case["n"]
    ev = trace.events
    fails = []
    # split into phases
    phases = []
    cur = None
    for t, k, a in ev:
        if k == "==":
            cur = {"name": a, "events": []}
            phases.append(cur)
        elif cur is not None:
            cur["events"].append((t, k, a))
        else:
            if k not in ("LIBOBJ", "HEAP"):
                fails.append(("effect-before-setup", "nothing before setup()", f"{k} {a}"))
    names = [p["name"] for p in phases]
    want_names = ["setup"] + [f"loop {i}" for i in range(n)] + ["end"]
    if names != want_names:
        fails.append(("phase-structure", want_names, names))
        return fails
    setup = phases[0]["events"]
    loops = [p["events"] for p in phases[1:-1]]

    def sers(events):
        return [a for _, k, a in events if k == "SER"]

    # m1 prologue markers once, in order, before pass 0
    pm = [s for s in sers(setup) if s.startswith("@P")]
    if pm != info["pro_markers"]:
        fails.append(("m1-prologue-markers", info["pro_markers"], pm))
    for i, le in enumerate(loops):
        stray = [s for s in sers(le) if s.startswith("@P")]
        if stray:
            fails.append(("m1-prologue-repeated-in-loop", "no prologue marker inside loop()", f"pass {i}: {stray}"))
    # m1v values computed by the prologue at their source position
    pv_ = [x for x in sers(setup) if x.startswith("@V")]
    if pv_ != info.get("pro_values", []):
        fails.append(("m1-prologue-value-not-computed-in-source-order", info.get("pro_values", []), pv_))
    for i, le in enumerate(loops):
        lv = [x for x in sers(le) if x.startswith("@W")]
        if lv != info.get("loop_values", []):
            fails.append(("m1-prologue-value-changed-in-loop", f"pass {i}: {info.get('loop_values', [])}", lv))
        if info.get("pv_final") is not None:
            xs = [x for x in sers(le) if x.startswith("@X=")]
            if xs != [f"@X={info['pv_final'] + i + 1}"]:
                fails.append(("m2-prologue-value-does-not-persist", f"pass {i}: @X={info['pv_final'] + i + 1}", xs))
        if info.get("pv_wait") is not None and info.get("pv_final") is not None:
            want = PV_WRAPS[info["pv_wait"]][1](info["pv_final"] + i + 1)
            seq = [(k, a) for _, k, a in le if k == "DELAY" or (k == "SER" and (a.startswith("@X=") or a == "@Y"))]
            j = next((q for q, (k, a) in enumerate(seq) if a.startswith("@X=")), None)
            got = []
            if j is not None:
                for k, a in seq[j + 1:]:
                    if k == "SER":
                        break
                    got.append(int(a.split()[0]))
            if got != [want]:
                fails.append(("m2-wait-does-not-follow-persisting-value", f"pass {i}: delay({want})", got))
    # m2 body markers once per pass in order; counter continues
    if any(s.startswith("@L") for s in sers(setup)):
        fails.append(("m2-body-ran-in-setup", "no body marker in setup()", sers(setup)))
    for i, le in enumerate(loops):
        lm = [s for s in sers(le) if s.startswith("@L")]
        if lm != info["loop_markers"]:
            fails.append(("m2-body-markers", f"pass {i}: {info['loop_markers']}", lm))
        if "@NEVER" in sers(le):
            fails.append(("m2-continue-ignored", "statement after main-loop `continue` not executed", f"pass {i}"))
        if info["counter"] and info["loop_markers"]:
            s = sers(le)
            idx = s.index(info["loop_markers"][0]) if info["loop_markers"][0] in s else -1
            got = s[idx + 1] if 0 <= idx < len(s) - 1 else None
            if got != str(i + 1):
                fails.append(("m2-counter-does-not-persist", f"pass {i}: counter {i + 1}", got))
    # m3 configure-before-use
    mode = {}
    attached = set()
    serial_begun = False
    lcd_begun = set()
    motor_safe = {32: None, 34: None, 33: None}
    allev = [e for p in phases for e in p["events"]]
    in_setup_idx = len(setup)
    for idx, (t, k, a) in enumerate(allev):
        p = a.split()
        if k == "PINMODE":
            pin, m = int(p[0]), int(p[1])
            if pin in mode and mode[pin] != m and pin in pins:
                fails.append(("m3-pin-reconfigured", f"pin {pin} keeps mode {mode[pin]}", f"pinMode({pin}, {m})"))
            mode[pin] = m
            if pin in pins and pins[pin] != m:
                fails.append(("m3-wrong-pin-mode", f"pin {pin} mode {pins[pin]}", m))
            if idx >= in_setup_idx and pin in pins:
                fails.append(("m3-pinmode-in-loop", "device pins configured in setup()", f"pinMode({pin}) in loop()"))
        elif k in ("DW", "AW", "TONE", "NOTONE") and int(p[0]) in pins:
            pin = int(p[0])
            if mode.get(pin) != 1:
                fails.append(("m3-write-before-pinmode", f"pinMode({pin}, OUTPUT) before first write", f"{k} {a}"))
        elif k in ("DR", "AR", "PULSEIN") and int(p[0]) in pins:
            pin = int(p[0])
            if pin not in mode:
                fails.append(("m3-read-before-pinmode", f"pinMode({pin}, ...) before first read", f"{k} {a}"))
        elif k == "SERVO_ATTACH":
            attached.add(int(p[0]))
            if idx >= in_setup_idx:
                fails.append(("m3-attach-in-loop", "servo attached in setup()", a))
        elif k in ("SERVO_WRITE", "SERVO_US"):
            if "att=1" not in a:
                fails.append(("m3-servo-write-before-attach", "attach before write", a))
        elif k == "SERIAL_BEGIN":
            serial_begun = True
        elif k == "SER" and not serial_begun:
            fails.append(("m3-serial-before-begin", "Serial.begin before first print", a))
        elif k == "LCD_USE_BEFORE_BEGIN":
            fails.append(("m3-lcd-before-begin", "begin()/init() before use", a))
        elif k == "LCD_OOB":
            fails.append(("lcd-out-of-bounds", "writes inside the display", a))
    if info["motor"]:
        # safe stop in setup: in1, in2 LOW and enable 0 before any other motor command
        seq = [(k, a) for _, k, a in setup if k in ("DW", "AW") and int(a.split()[0]) in (32, 34, 33)]
        if seq[:3] != [("DW", "32 0"), ("DW", "34 0"), ("AW", "33 0")]:
            fails.append(("m3-motor-not-stopped-in-setup", "in1 LOW, in2 LOW, enable 0 first", seq[:4]))
    # m4 housekeeping: per pass exactly one DR per button, before the first user marker, no delay before it
    for i, le in enumerate(loops):
        first_user = next((j for j, (_, k, a) in enumerate(le) if k == "SER" and a.startswith("@L")), len(le))
        head = le[:first_user]
        for b in info["buttons"]:
            drs = [j for j, (_, k, a) in enumerate(le) if k == "DR" and int(a.split()[0]) == b]
            if len(drs) != 1:
                fails.append(("m4-button-sampled-not-once", f"pass {i}: one digitalRead({b})", len(drs)))
            elif drs[0] >= first_user:
                fails.append(("m4-button-sampled-after-user-code", f"pass {i}: poll before the first user statement", f"index {drs[0]} >= {first_user}"))
        if info["anim"]:
            late = [(k, a) for _, k, a in le[first_user:] if k.startswith("LCD_")]
            if late:
                fails.append(("m4-lcd-tick-after-user-code", f"pass {i}: animation tick before the first user statement", late[:2]))
        for row, sp, lp in info.get("anim_rows", []):
            if sp == 0 and lp and not any(k == "LCD_CURSOR" and int(a.split()[2]) == row for _, k, a in head):
                fails.append(("m4-animation-not-ticked", f"pass {i}: the looping speed_ms=0 animation on row {row} steps in every pass", "no frame for that row"))
        if any(k in ("DELAY",) for _, k, a in head):
            fails.append(("m4-delay-in-housekeeping", f"pass {i}: no delay before the first user statement", [x for x in head if x[1] == "DELAY"][:2]))
    return fails


def evaluate(case):
    """Returns (status, failures)."""
    try:
        cpp = fb.transpile(case["src"])
    except ValueError as e:
        if case["expect_reject"]:
            return "rejected-as-required", []
        return "rejected", []
    except Exception as e:
        return "rejected-other", []
    mk = lambda b, e, o: {"bucket": b, "case": {k: case[k] for k in ("src", "n", "tape", "pins", "info", "expect_reject")}, "expected": str(e), "observed": str(o)}
    if case["expect_reject"]:
        return "FAIL", [mk("m5-main-loop-break-accepted", "ValueError: cannot break out of the main loop()", "transpiled")]
    with fb.Workdir("c5") as wd:
        try:
            exe = fb.build(cpp, wd)
        except fb.CompileError as e:
            return "FAIL", [mk("compile-error", "compiles", str(e)[:300])]
        t = case["tape"]
        tape = fb.make_tape(jitter=t.get("jitter", ()), digital={int(k): v for k, v in t["digital"].items()}, analog={int(k): v for k, v in t["analog"].items()},
                            pulse={int(k): v for k, v in t["pulse"].items()})
        trace = fb.run(exe, case["n"], tape, wd)
    if trace.status != "ok":
        return "FAIL", [mk("firmware-" + trace.status, "runs to completion", trace.stderr[-200:])]
    fails = monitors(case, trace)
    return ("FAIL" if fails else "ok"), [mk(b, e, o) for b, e, o in fails]


def nontrivial(case):
    i = case["info"]
    return i["has_loop"] and case["n"] >= 2 and (bool(i["loop_devices"]) or i["counter"] or bool(i["buttons"]) or i["anim"])


def plan(tier):
    n = 60 if tier == "quick" else 1500
    return [(f"gen-{i}", {"n": n}) for i in range(16)]


def run_shard(name, seed, tier, n):
    r = Result()
    last = {}

    @hseed(seed)
    @hyp_settings(n, phases=(Phase.generate,))
    @given(phase_script())
    def prop(case):
        status, fails = evaluate(case)
        r.count("status:" + status)
        if case["info"]["loop_devices"]:
            r.count("with_loop_declared_device")
        if case["info"]["buttons"]:
            r.count("with_button")
        if case["info"]["anim"]:
            r.count("with_lcd_animation")
        if not case["info"]["has_loop"]:
            r.count("without_main_loop")
        c = {k: case[k] for k in ("src", "n", "tape")}
        r.case(c if len(r.samples) < 1 else {"h": hash(case["src"]) & 0xffffffff, "n": case["n"]}, status == "ok" and nontrivial(case))
        for fl in fails:
            if fl["bucket"] not in last or len(case["src"]) < len(last[fl["bucket"]]["case"]["src"]):
                last[fl["bucket"]] = fl

    prop()
    r.failures = list(last.values())
    return r


def replay(case):
    return evaluate(case)[1][:1]
