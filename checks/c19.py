"""C19 - host actuator models keep their invariants under every operation history.

Histories are generated as lists of operations (Hypothesis list strategies = a rule-based machine without
preconditions, so the saved replay is the plain op list) and interpreted against the real classes; invariants from
the property statement are checked after every step, atomicity after every failing step, sleep accounting and
post-conditions after every successful step.
"""
from __future__ import annotations

import math
from fractions import Fraction

from hypothesis import given, seed as hseed, strategies as st

from vlib.runner import Result, hyp_settings

ID = "C19"
LEVEL = "exploration"
RULE = (
    "Hypothesis generates operation histories (<=30 ops quick, <=60 thorough) for Led, RGBLed, Servo (generated bounds) "
    "and DCMotor; every public method is an operation, arguments come from in-range, boundary and out-of-range ints, "
    "floats (incl. +-inf, -0.0, excl. NaN) and bools, and a third of the operations re-use exactly the arguments of an earlier operation of the history "
    "(blink in the colour already shown, ramp to the present speed, ...); sleep is replaced through the package-level indirection by a "
    "recorder that also snapshots the object. Non-trivial = a history in which a failing call is followed by a "
    "successful state-changing call, or >=3 successful calls on the object; distinct = distinct op list."
)
ASSUMPTIONS = [
    "NaN is excluded from numeric arguments (neither in-range, boundary nor out-of-range)",
    "Led.fade_in/fade_out step is an int (as annotated) or a float >= 0.25; a denormal positive step would loop forever and is outside the documented type",
    "float correspondences (servo map, ramp target, sleep totals) are compared to 1e-9 relative",
]

# ------------------------------------------------------------------ values
BOUND = [-1, 0, 1, 2, 127, 128, 254, 255, 256, 300, -255, 1000, 0.0, -0.0, 0.5, 1.0, -1.0, 1.5, -1.5, 0.999, 254.5, 255.0,
         255.5, 1e9, -1e9, float("inf"), float("-inf"), True, False, 1e-9, -1e-9, 180, 90, 544, 2400, 1500, 543, 2401, 181]
num = st.one_of(st.sampled_from(BOUND), st.integers(-300, 600), st.floats(-2, 2, allow_nan=False),
                st.floats(allow_nan=False, width=32))
comp = st.one_of(st.integers(0, 255), st.sampled_from([0, 1, 255, 254, 128]), num)  # mostly valid components
small_ms = st.one_of(st.sampled_from([0, 1, 0.5, 10, 3, -1, -0.5, 1000, 7.25]), st.integers(-2, 50), st.floats(-1, 100, allow_nan=False))
times_v = st.one_of(st.integers(-1, 6), st.sampled_from([0, 1, 2, True, False, -3, 25]))
step_v = st.one_of(st.integers(-2, 300), st.sampled_from([1, 5, 255, 256, 0, -1, True, False, 0.5, 2.5, 0.25, -0.5]))
steps_v = st.one_of(st.integers(-1, 60), st.sampled_from([1, 2, 50, 0, -5, True, 255, 300]))
pattern_v = st.lists(st.one_of(st.sampled_from([0, 1, 2, 255, 256, -1, 128, 0.5, True, False]), st.integers(-5, 300)), max_size=6)
speed_v = st.one_of(st.floats(-1, 1, allow_nan=False), st.sampled_from([0, 0.0, -0.0, 1, -1, 1.0, -1.0, 0.5, -0.5, 2, -2, 1e-9, -1e-9, 1e-320, True, False, float("inf"), float("-inf")]), num)


def op(name, **argst):
    return st.fixed_dictionaries({"op": st.just(name), **argst})


LED_OPS = st.one_of(
    op("on"), op("off"), op("toggle"), op("get"),
    op("set_brightness", value=st.one_of(st.integers(0, 255), num)),
    op("blink", duration_ms=small_ms, times=times_v),
    op("fade_in", step=step_v, delay_ms=small_ms), op("fade_out", step=step_v, delay_ms=small_ms),
    op("flash_pattern", pattern=pattern_v, delay_ms=small_ms),
)
RGB_OPS = st.one_of(
    op("off"), op("get"), op("on_default"),
    op("on", red=comp, green=comp, blue=comp), op("set_color", red=comp, green=comp, blue=comp),
    op("fade", red=comp, green=comp, blue=comp, duration_ms=small_ms, steps=steps_v),
    op("fade", red=st.integers(0, 255), green=st.integers(0, 255), blue=st.integers(0, 255), duration_ms=st.integers(1, 2000), steps=st.one_of(st.just(50), st.integers(1, 64))),
    op("blink", red=comp, green=comp, blue=comp, times=times_v, delay_ms=small_ms),
)
SERVO_OPS = st.one_of(
    op("write", frac=st.one_of(st.floats(0, 1), st.sampled_from([0.0, 1.0, 0.5, -0.01, 1.01, 2.0, -1.0])), as_int=st.booleans(), feedback=st.booleans()),
    op("write_us", frac=st.one_of(st.floats(0, 1), st.sampled_from([0.0, 1.0, 0.5, -0.01, 1.01, 2.0, -1.0])), as_int=st.booleans(), feedback=st.booleans()),
    op("write_raw", value=num), op("write_us_raw", value=num), op("get"),
)
MOTOR_OPS = st.one_of(
    op("set_speed", value=speed_v), op("backward", speed=speed_v), op("backward_default"), op("stop"), op("coast"),
    op("invert"), op("get"), op("ramp", target_speed=speed_v, duration_ms=small_ms),
    op("run_for", duration_ms=small_ms, speed=speed_v),
)


def finite_span(lo_hi):
    lo, hi = lo_hi
    return lo < hi and (hi - lo) >= 1e-3 and (hi - lo) >= 1e-9 * max(abs(lo), abs(hi))


bounds_st = st.one_of(
    st.just((0.0, 180.0)), st.just((544.0, 2400.0)),
    # ranges of real servos and their data sheets (the slope between such ranges is rarely a binary fraction)
    st.sampled_from([(0.0, 170.0), (0.0, 120.0), (-90.0, 90.0), (10.0, 170.0), (0.0, 270.0), (0.0, 360.0), (1000.0, 2400.0), (900.0, 2000.0), (700.0, 2450.0), (500.0, 2500.0),
                     (600.0, 2000.0), (1000.0, 2000.0), (0.0, 7.0), (3.0, 10.0), (-45.0, 45.0), (0.0, 100.0)]),
    st.tuples(st.floats(-1e4, 1e4), st.floats(-1e4, 1e4)).map(lambda t: (min(t), max(t))).filter(finite_span),
    st.tuples(st.integers(-500, 3000), st.integers(-500, 3000)).map(lambda t: (min(t), max(t))).filter(lambda t: t[0] < t[1]),
)


class Fail(Exception):
    def __init__(self, bucket, expected, observed):
        self.bucket, self.expected, self.observed = bucket, expected, observed


def need(cond, bucket, expected, observed):
    if not cond:
        raise Fail(bucket, expected, observed)


def close(a, b, scale=1.0, rel=1e-9):
    if a == b:
        return True
    if math.isinf(a) or math.isinf(b):
        return False
    return abs(a - b) <= rel * max(scale, abs(a), abs(b))


# ------------------------------------------------------------------ interpreters
class Harness:
    """Installs the sleep recorder; `snap` is called at every sleep so intermediate states are visible."""

    def __init__(self):
        import Reduino.Actuators as A

        self.A = A
        self.sleeps = []
        self.snaps = []
        self.snap = lambda: None
        self._orig = A.sleep

        def rec(ms, **kw):
            if ms < 0:
                raise ValueError("duration must be non-negative")
            self.sleeps.append(float(ms))
            self.snaps.append(self.snap())

        A.sleep = rec

    def close(self):
        self.A.sleep = self._orig

    def reset(self):
        self.sleeps, self.snaps = [], []


def state_of(obj):
    return {k: v for k, v in vars(obj).items() if not k.startswith("_verif")}


def same_state(a, b):
    if a.keys() != b.keys():
        return False
    for k in a:
        x, y = a[k], b[k]
        if type(x) is not type(y) or x != y:
            return False
        if isinstance(x, float) and math.copysign(1, x) != math.copysign(1, y):
            return False
    return True


def total_ok(sleeps, limit):
    return math.fsum(sleeps) <= limit * (1 + 1e-9) + 1e-12


def scalar(v):
    return isinstance(v, (int, float, bool))


def run_led(ops, info):
    h = Harness()
    try:
        led = h.A.Led(info.get("pin", 13))
        h.snap = lambda: led.brightness

        def inv(where):
            b = led.brightness
            need(isinstance(b, int) and 0 <= b <= 255, "led-brightness-range", "int 0..255", f"{b!r} after {where}")
            need(led.state is (b > 0), "led-state-iff-brightness", f"state == {b > 0}", f"state={led.state!r} brightness={b} after {where}")
            need(led.get_state() is led.state and led.get_brightness() == b, "led-getters", "getters mirror state", where)

        inv("init")
        ok_calls = fail_then_ok = 0
        failed_before = False
        for o in ops:
            before = state_of(led)
            h.reset()
            name = o["op"]
            try:
                if name == "get":
                    led.get_state(), led.get_brightness()
                elif name in ("on", "off", "toggle"):
                    getattr(led, name)()
                elif name == "set_brightness":
                    led.set_brightness(o["value"])
                elif name == "blink":
                    led.blink(o["duration_ms"], o["times"]) if o["times"] != 1 or o["duration_ms"] != 3 else led.blink(o["duration_ms"])
                elif name in ("fade_in", "fade_out"):
                    getattr(led, name)(step=o["step"], delay_ms=o["delay_ms"])
                elif name == "flash_pattern":
                    led.flash_pattern(o["pattern"], o["delay_ms"])
                raised = None
            except Exception as e:  # failing call: allowed, but must be atomic for scalar arguments
                raised = e
            inv(f"{o}")
            if raised is not None:
                failed_before = True
                if name != "flash_pattern":
                    need(same_state(before, state_of(led)), "led-not-atomic", f"state unchanged {before}", f"{state_of(led)} after failing {o} ({raised!r})")
                    need(not h.sleeps, "led-slept-in-failing-call", "no sleep", f"{h.sleeps} in {o}")
                continue
            ok_calls += 1
            if failed_before and name != "get":
                fail_then_ok += 1
            if name == "blink":
                d, t = float(o["duration_ms"]), int(o["times"])
                need(len(h.sleeps) == 2 * t and all(s == d for s in h.sleeps), "led-blink-sleeps", f"{2*t} sleeps of {d}", h.sleeps)
                need(close(math.fsum(h.sleeps), 2 * t * d), "led-blink-total", 2 * t * d, math.fsum(h.sleeps))
            if name == "toggle":
                need(led.state is (not before["state"]), "led-toggle", f"state {not before['state']}", led.state)
            if name == "on":
                need(led.brightness == 255, "led-on", 255, led.brightness)
            if name == "off":
                need(led.brightness == 0, "led-off", 0, led.brightness)
            if name == "set_brightness":
                need(led.brightness == int(o["value"]), "led-set-brightness", int(o["value"]), led.brightness)
            if name in ("fade_in", "fade_out"):
                seq = h.snaps + [led.brightness]
                mono = all(a <= b for a, b in zip(seq, seq[1:])) if name == "fade_in" else all(a >= b for a, b in zip(seq, seq[1:]))
                need(mono, "led-fade-monotone", "monotone brightness", seq)
                need(led.brightness == (255 if name == "fade_in" else 0), "led-fade-end", "ends at bound", led.brightness)
        return ok_calls, fail_then_ok
    finally:
        h.close()


def run_rgb(ops, info):
    h = Harness()
    try:
        rgb = h.A.RGBLed(*info.get("pins", (9, 10, 11)))
        h.snap = lambda: rgb.get_color()

        def inv(where):
            c = rgb.get_color()
            need(isinstance(c, tuple) and len(c) == 3 and all(isinstance(x, int) and 0 <= x <= 255 for x in c), "rgb-range", "3 ints 0..255", f"{c!r} after {where}")
            need(rgb.get_state() is any(x > 0 for x in c), "rgb-state-iff-any-channel", any(x > 0 for x in c), f"{rgb.get_state()!r} color={c} after {where}")

        inv("init")
        ok_calls = fail_then_ok = 0
        failed_before = False
        for o in ops:
            before = state_of(rgb)
            h.reset()
            name = o["op"]
            try:
                if name == "get":
                    rgb.get_color()
                elif name == "off":
                    rgb.off()
                elif name == "on_default":
                    rgb.on()
                elif name in ("on", "set_color"):
                    getattr(rgb, name)(o["red"], o["green"], o["blue"])
                elif name == "fade":
                    rgb.fade(o["red"], o["green"], o["blue"], duration_ms=o["duration_ms"], steps=o["steps"])
                elif name == "blink":
                    rgb.blink(o["red"], o["green"], o["blue"], times=o["times"], delay_ms=o["delay_ms"])
                raised = None
            except Exception as e:
                raised = e
            inv(f"{o}")
            if raised is not None:
                failed_before = True
                need(same_state(before, state_of(rgb)), "rgb-not-atomic", f"state unchanged {before}", f"{state_of(rgb)} after failing {o} ({raised!r})")
                need(not h.sleeps, "rgb-slept-in-failing-call", "no sleep", f"{h.sleeps} in {o}")
                continue
            ok_calls += 1
            if failed_before and name != "get":
                fail_then_ok += 1
            start = before["_color"]
            if name in ("on", "set_color"):
                need(rgb.get_color() == (int(o["red"]), int(o["green"]), int(o["blue"])), "rgb-set-color", "colour as given", rgb.get_color())
            if name == "on_default":
                need(rgb.get_color() == (255, 255, 255), "rgb-on-default", (255, 255, 255), rgb.get_color())
            if name == "fade":
                tgt = (int(o["red"]), int(o["green"]), int(o["blue"]))
                need(rgb.get_color() == tgt, "rgb-fade-end", tgt, rgb.get_color())
                seq = [start] + h.snaps + [rgb.get_color()]
                for ch in range(3):
                    col = [s[ch] for s in seq]
                    up = tgt[ch] >= start[ch]
                    need(all((a <= b) if up else (a >= b) for a, b in zip(col, col[1:])), "rgb-fade-monotone", "monotone per channel", col)
                direct = o["duration_ms"] == 0 or start == tgt
                need(len(h.sleeps) == (0 if direct else int(o["steps"]) - 1), "rgb-fade-steps", f"{o['steps']} steps", f"{len(h.sleeps) + 1} steps")
                need(total_ok(h.sleeps, float(o["duration_ms"])), "rgb-fade-too-long", f"<= {o['duration_ms']}", math.fsum(h.sleeps))
            if name == "blink":
                need(rgb.get_color() == start, "rgb-blink-restore", start, rgb.get_color())
                t, d = int(o["times"]), float(o["delay_ms"])
                need(len(h.sleeps) == 2 * t and all(s == d for s in h.sleeps), "rgb-blink-sleeps", f"{2*t} x {d}", h.sleeps)
                col = (int(o["red"]), int(o["green"]), int(o["blue"]))
                need(h.snaps == [col, (0, 0, 0)] * t, "rgb-blink-sequence", [col, (0, 0, 0)] * t, h.snaps)
        return ok_calls, fail_then_ok
    finally:
        h.close()


def run_servo(ops, info):
    h = Harness()
    try:
        (a0, a1), (p0, p1) = info["angles"], info["pulses"]
        kw = {}
        if (a0, a1) != (0.0, 180.0) or info.get("explicit"):
            kw.update(min_angle=a0, max_angle=a1)
        if (p0, p1) != (544.0, 2400.0) or info.get("explicit"):
            kw.update(min_pulse_us=p0, max_pulse_us=p1)
        s = h.A.Servo(info.get("pin", 9), **kw)
        fa0, fa1, fp0, fp1 = (Fraction(float(x)) for x in (a0, a1, p0, p1))
        # with whole-number bounds the spans and end points are exact in binary floating point, so "within their bounds" holds without any
        # rounding allowance (and the servo accepts its own reading back); other bounds get a 1e-9 relative allowance
        exact_bounds = all(float(x).is_integer() and abs(x) <= 1e6 for x in (a0, a1, p0, p1))

        def inv(where):
            a, p = s.read(), s.read_us()
            need(isinstance(a, float) and isinstance(p, float), "servo-types", "floats", (a, p))
            tol_a, tol_p = (0.0, 0.0) if exact_bounds else (1e-9 * float(fa1 - fa0), 1e-9 * float(fp1 - fp0))
            need(a0 - tol_a <= a <= a1 + tol_a, "servo-angle-bounds", f"[{a0},{a1}]", f"{a} after {where}")
            need(p0 - tol_p <= p <= p1 + tol_p, "servo-pulse-bounds", f"[{p0},{p1}]", f"{p} after {where}")
            exact_p = fp0 + (Fraction(a) - fa0) / (fa1 - fa0) * (fp1 - fp0)
            scale = max(abs(p0), abs(p1), abs(a0) / float(fa1 - fa0) * float(fp1 - fp0), abs(a1) / float(fa1 - fa0) * float(fp1 - fp0))
            need(abs(Fraction(p) - exact_p) <= Fraction(1e-9) * Fraction(scale), "servo-angle-pulse-correspondence", float(exact_p), f"pulse {p} for angle {a} after {where}")

        inv("init")
        need(s.read() == float(a0) and s.read_us() == float(p0), "servo-initial", (a0, p0), (s.read(), s.read_us()))
        ok_calls = fail_then_ok = 0
        failed_before = False
        for o in ops:
            before = state_of(s)
            name = o["op"]
            val = None
            try:
                if name == "get":
                    s.read(), s.read_us()
                else:
                    if name in ("write", "write_us"):
                        lo, hi = (a0, a1) if name == "write" else (p0, p1)
                        val = lo + o["frac"] * (hi - lo)
                        if 0 <= o["frac"] <= 1:
                            val = min(max(val, lo), hi)
                        if o["as_int"] and lo <= math.floor(val) <= hi:
                            val = int(math.floor(val))
                    else:
                        val = o["value"]
                    getattr(s, "write" if name in ("write", "write_raw") else "write_us")(val)
                raised = None
            except Exception as e:
                raised = e
            inv(f"{o}")
            if raised is not None:
                failed_before = True
                need(same_state(before, state_of(s)), "servo-not-atomic", before, f"{state_of(s)} after failing {o} ({raised!r})")
                if name in ("write", "write_us") and 0 <= o["frac"] <= 1:
                    raise Fail("servo-rejects-in-range", f"{val} accepted", repr(raised))
                continue
            ok_calls += 1
            if failed_before and name != "get":
                fail_then_ok += 1
            if name in ("write", "write_raw"):
                need(s.read() == float(val), "servo-write-read-roundtrip", float(val), s.read())
                need(a0 <= val <= a1, "servo-accepted-out-of-range-angle", f"[{a0},{a1}]", val)
            if name in ("write_us", "write_us_raw"):
                need(s.read_us() == float(val), "servo-write_us-read_us-roundtrip", float(val), s.read_us())
                need(p0 <= val <= p1, "servo-accepted-out-of-range-pulse", f"[{p0},{p1}]", val)
            if name != "get" and o.get("feedback") and exact_bounds:
                # "stay within their bounds": the servo's own reading is a value it accepts back (write(read()) / write_us(read_us()))
                try:
                    s.write(s.read()) if name in ("write_us", "write_us_raw") else s.write_us(s.read_us())
                except Exception as e:
                    raise Fail("servo-own-reading-out-of-bounds", "write(read()) / write_us(read_us()) accepted", f"{e!r} after {o} (angle {s.read()!r}, pulse {s.read_us()!r})")
                inv(f"feedback after {o}")
        return ok_calls, fail_then_ok
    finally:
        h.close()


def run_motor(ops, info):
    h = Harness()
    try:
        Base = h.A.DCMotor

        class Rec(Base):
            def set_speed(self, value):
                super().set_speed(value)
                self._verif_log.append(self._speed)

        m = Rec(*info.get("pins", (2, 3, 5)))
        m._verif_log = []
        h.snap = lambda: (m.get_speed(), m.get_mode())
        last_cmd = [None]

        def clamp(v):
            v = float(v)
            return 1.0 if v > 1 else (-1.0 if v < -1 else v)

        def inv(where):
            sp, ap = m.get_speed(), m.get_applied_speed()
            need(isinstance(sp, float) and isinstance(ap, float), "motor-types", "floats", (sp, ap))
            need(abs(sp) <= 1.0, "motor-speed-range", "|speed|<=1", f"{sp} after {where}")
            want = -sp if m.is_inverted() else sp
            need(ap == want, "motor-applied-speed", want, f"{ap} (speed={sp} inverted={m.is_inverted()}) after {where}")
            if ap != 0:
                wm = "drive"
            else:
                wm = "brake" if last_cmd[0] in ("stop", "run_for") else "coast"
            need(m.get_mode() == wm, "motor-mode", wm, f"{m.get_mode()} (applied={ap}, last={last_cmd[0]}) after {where}")

        inv("init")
        ok_calls = fail_then_ok = 0
        failed_before = False
        for o in ops:
            before = state_of(m)
            h.reset()
            m._verif_log = []
            name = o["op"]
            try:
                if name == "get":
                    m.get_speed()
                elif name == "set_speed":
                    m.set_speed(o["value"])
                elif name == "backward":
                    m.backward(o["speed"])
                elif name == "backward_default":
                    m.backward()
                elif name in ("stop", "coast", "invert"):
                    getattr(m, name)()
                elif name == "ramp":
                    m.ramp(o["target_speed"], o["duration_ms"])
                elif name == "run_for":
                    m.run_for(o["duration_ms"], o["speed"])
                raised = None
            except Exception as e:
                raised = e
            if raised is None and name != "get":
                last_cmd[0] = name
            inv(f"{o}")
            if raised is not None:
                failed_before = True
                need(same_state(before, state_of(m)), "motor-not-atomic", before, f"{state_of(m)} after failing {o} ({raised!r})")
                need(not h.sleeps, "motor-slept-in-failing-call", "no sleep", h.sleeps)
                continue
            ok_calls += 1
            if failed_before and name != "get":
                fail_then_ok += 1
            if name == "set_speed":
                need(m.get_speed() == clamp(o["value"]), "motor-set-speed", clamp(o["value"]), m.get_speed())
            if name in ("backward", "backward_default"):
                want = -abs(clamp(o.get("speed", 1.0)))
                need(m.get_speed() == want, "motor-backward", want, m.get_speed())
            if name in ("stop", "coast"):
                need(m.get_speed() == 0 and m.get_applied_speed() == 0, "motor-stop-zero", 0, (m.get_speed(), m.get_applied_speed()))
            if name == "invert":
                need(m.is_inverted() is (not before["_inverted"]), "motor-invert-flag", not before["_inverted"], m.is_inverted())
                need(m.get_speed() == before["_speed"], "motor-invert-keeps-speed", before["_speed"], m.get_speed())
                # involution: a second invert restores everything but the mode forced by 'coast'
                probe = dict(state_of(m))
                m.invert(); m.invert()
                need(same_state(probe, state_of(m)), "motor-invert-involution", probe, state_of(m))
            if name == "ramp":
                tgt, start = clamp(o["target_speed"]), before["_speed"]
                log = m._verif_log
                need(len(log) == 20, "motor-ramp-steps", "20 steps", len(log))
                up = tgt >= start
                seq = [start] + log
                need(all((a <= b) if up else (a >= b) for a, b in zip(seq, seq[1:])), "motor-ramp-monotone", "monotone", seq)
                need(close(m.get_speed(), tgt, rel=1e-12), "motor-ramp-end", tgt, m.get_speed())
                need(total_ok(h.sleeps, float(o["duration_ms"])), "motor-ramp-too-long", f"<= {o['duration_ms']}", math.fsum(h.sleeps))
            if name == "run_for":
                need(h.sleeps == [float(o["duration_ms"])], "motor-run_for-sleep", [float(o["duration_ms"])], h.sleeps)
                need(m.get_mode() == "brake" and m.get_speed() == 0, "motor-run_for-ends-braked", "brake/0", (m.get_mode(), m.get_speed()))
                need(h.snaps and h.snaps[0][0] == clamp(o["speed"]), "motor-run_for-speed-during", clamp(o["speed"]), h.snaps)
        return ok_calls, fail_then_ok
    finally:
        h.close()


KINDS = {
    "led": (LED_OPS, run_led, st.fixed_dictionaries({"pin": st.sampled_from([13, 3, 0])})),
    "rgb": (RGB_OPS, run_rgb, st.fixed_dictionaries({"pins": st.sampled_from([(9, 10, 11), (3, 5, 6)])})),
    "servo": (SERVO_OPS, run_servo, st.fixed_dictionaries({"angles": bounds_st, "pulses": bounds_st, "explicit": st.booleans()})),
    "motor": (MOTOR_OPS, run_motor, st.fixed_dictionaries({"pins": st.sampled_from([(2, 3, 5), (7, 8, 9)])})),
}


def plan(tier):
    n = 600 if tier == "quick" else 20000
    units = []
    for k in KINDS:
        for i in range(4):
            units.append((f"{k}-{i}", {"kind": k, "n": n, "maxops": 30 if tier == "quick" else 60}))
    return units


ECHO_KEYS = {"rgb": [("red", "green", "blue")], "led": [("value",)], "servo": [("value",), ("frac",)], "motor": [("value",), ("speed",), ("target_speed",)]}


def echo_ops(kind, ops, picks):
    """Coincidences a random draw almost never produces: an operation is given exactly the arguments an earlier operation of the history used
    (blink in the colour the LED already shows, fade to the present colour, ramp to the present speed, write of the present angle)."""
    ops = [dict(o) for o in ops]
    groups = ECHO_KEYS.get(kind, [])
    for i, o in enumerate(ops):
        if i == 0 or i >= len(picks) or not picks[i][0]:
            continue
        for keys in groups:
            if all(k in o for k in keys):
                # single-valued groups of one device are interchangeable (set_speed value / backward speed / ramp target_speed)
                alts = [keys] if len(keys) > 1 else [g for g in groups if len(g) == 1]
                donors = [(p, g) for p in ops[:i] for g in alts if all(k in p for k in g)]
                if donors:
                    src, g = donors[picks[i][1] % len(donors)]
                    for k, gk in zip(keys, g):
                        o[k] = src[gk]
                break
    return ops


def evaluate(kind, info, ops):
    try:
        okc, fto = KINDS[kind][1](ops, info)
        return None, okc, fto
    except Fail as f:
        return {"bucket": f.bucket, "case": {"kind": kind, "info": info, "ops": ops}, "expected": str(f.expected), "observed": str(f.observed)}, 0, 0


def run_shard(name, seed, tier, kind, n, maxops):
    r = Result()
    ops_st, _, info_st = KINDS[kind]
    last = {}

    @hseed(seed)
    @hyp_settings(n)
    @given(info_st, st.lists(ops_st, min_size=1, max_size=maxops), st.lists(st.tuples(st.integers(0, 2).map(lambda v: v == 0), st.integers(0, 7)), max_size=maxops))
    def prop(info, ops, picks):
        ops = echo_ops(kind, ops, picks)
        if any(p[0] for p in picks[1:len(ops)]):
            r.count(f"{kind}:history_with_echoed_arguments")
        fl, okc, fto = evaluate(kind, info, ops)
        r.case({"kind": kind, "info": info, "ops": ops}, fto >= 1 or okc >= 3)
        if fto:
            r.count(f"{kind}:fail_then_success")
        r.count(f"{kind}:ops", len(ops))
        if fl:
            last[fl["bucket"]] = fl
            raise AssertionError(fl["bucket"])

    try:
        prop()
    except AssertionError:
        pass
    r.failures = list(last.values())
    return r


def replay(case):
    fl, _, _ = evaluate(case["kind"], case["info"], case["ops"])
    return [fl] if fl else []
