"""C10 - transpilation is a deterministic, stateless function of the source text.

(1) a pool of generated scripts is transpiled by fresh interpreters under different PYTHONHASHSEED values: one digest per script;
(2) histories: scripts of the pool are transpiled in generated orders inside one process: every output equals the
    fresh-process output; (3) parse() twice gives == IR; (4) module-level containers of parser/emitter/ast are unchanged.
"""
from __future__ import annotations

import copy
import hashlib
import json
import os
import subprocess
import sys

from hypothesis import Phase, given, seed as hseed, strategies as st

from vlib import gen_script as gs
from vlib.runner import SRC, Result, hyp_settings

ID = "C10"
LEVEL = "exploration"
RULE = (
    "Hypothesis generates 'promotion' scripts: 2-8 fresh names first assigned (in random order, several per block) inside if/elif/else, while, for and "
    "try/except bodies and read afterwards; 1-3 buttons, LCDs with animations, ultrasonic sensors with measure calls, helpers called with several "
    "signatures, lists; plus scripts from the general grammar. (1) each pool of scripts is transpiled in fresh interpreters with PYTHONHASHSEED in "
    "{0,1,2,3,5,8,13,21,34,55,89} and the digests must agree; (2) generated histories (2-12 transpilations of pool members in any order, one process) "
    "must reproduce the fresh-process bytes; parse twice -> equal IR; module-level state deep-equal before/after. Non-trivial = script with >=2 names "
    "promoted out of one block, or a history that transpiles >=2 different scripts before repeating one. distinct = distinct script / history."
)
ASSUMPTIONS = ["other CPython versions / platforms are represented by hash-seed variation only"]

SEEDS = [0, 1, 2, 3, 5, 8, 13, 21, 34, 55, 89]
HEAD = ("from Reduino.Actuators import Led\nfrom Reduino.Communication import SerialMonitor\nfrom Reduino.Displays import LCD\nfrom Reduino.Sensors import Button, Ultrasonic\n"
        "from Reduino.Core import analog_read\nfrom Reduino.Utils import sleep\nmon = SerialMonitor(9600)\n")
NAMES = ["alpha", "beta", "gamma", "delta", "eps", "zeta", "eta", "theta", "iota", "kappa", "lam", "mu", "nu", "xi", "omi", "pi", "rho", "sig", "tau", "ups"]


@st.composite
def promotion_script(draw):
    lines = [HEAD.rstrip("\n")]
    names = draw(st.lists(st.sampled_from(NAMES), min_size=2, max_size=8, unique=True))
    multi = 0
    # devices whose bookkeeping lives in sets/dicts
    for i in range(draw(st.integers(0, 3))):
        nm = draw(st.sampled_from(["btn_a", "btn_z", "b1", "b2", "button", "knob", "btn0", "btn00", "b", "B", "btn_", "Btn"])) + str(i)   # also names that differ only in a leading zero / case (btn1 / btn01)
        lines.append(f"{nm} = Button({2 + i})")
    if draw(st.integers(0, 2)) == 0:
        # names that a "natural" or case-folding sort key cannot tell apart: the emitted order must still not depend on the hash seed
        pair = draw(st.sampled_from([("btn1", "btn01"), ("b7", "b007"), ("key2", "key02"), ("Btn3", "btn3"), ("k10", "k010")]))
        lines += [f"{pair[0]} = Button(30)", f"{pair[1]} = Button(31)"]
        multi += 1
    lcds = []
    for i in range(draw(st.integers(0, 2))):
        nm = draw(st.sampled_from(["lcd", "disp", "zlcd", "alcd"])) + str(i)
        lines.append(f"{nm} = LCD(i2c_addr={39 + i})")
        lines.append(f"{nm}.animate('{draw(st.sampled_from(['scroll', 'blink', 'typewriter', 'bounce']))}', 0, 'hi')")
        lcds.append(nm)
    sensors = []
    for i in range(draw(st.integers(0, 2))):
        nm = draw(st.sampled_from(["us", "zsonic", "asonic", "range"])) + str(i)
        lines.append(f"{nm} = Ultrasonic({20 + 2 * i}, {21 + 2 * i})")
        sensors.append(nm)
    if draw(st.booleans()):
        lines += ["def scale(a, b):", "    return a * b"]
        lines += ["r1 = scale(2, 3)", "r2 = scale(2, 0.5)", "r3 = scale(1.5, 2)"][: draw(st.integers(1, 3))]
    for hi in range(draw(st.integers(0, 2))):
        # helpers whose return paths yield values of 2-4 different types (scalars and lists of different element types): whatever the merge
        # decides, it decides the same under every hash seed
        rets = draw(st.lists(st.sampled_from(["1", "2.5", "'s'", "True", "[1, 2, 3]", "[0.5, 1.5]", "['a', 'b']", "[True]", "[]", "a", "[a]", "[a, 0.5]"]), min_size=2, max_size=4, unique=True))
        hn = draw(st.sampled_from(["pick", "choose", "zpick", "apick"])) + str(hi)
        lines.append(f"def {hn}(a):")
        for j, rv in enumerate(rets[:-1]):
            lines += [f"    if a > {10 * (len(rets) - j)}:", f"        return {rv}"]
        lines.append(f"    return {rets[-1]}")
        lines.append(f"rr{hi} = {hn}({draw(st.sampled_from(['3', '2.5', 'analog_read(\'A0\')']))})")
        multi += 1
    pos = 0
    while pos < len(names):
        k = draw(st.integers(1, min(4, len(names) - pos)))
        group = names[pos:pos + k]
        pos += k
        if k >= 2:
            multi += 1
        vals = [draw(st.sampled_from(["1", "2.5", "'s'", "True", "analog_read('A0')", "[1, 2]"])) for _ in group]
        kind = draw(st.sampled_from(["if", "ifelse", "ifelif", "while", "for", "try", "else_only", "elif_only", "except_only", "split"]))
        asg = [f"    {n} = {v}" for n, v in zip(group, vals)]
        if kind == "if":
            lines += ["if analog_read('A0') > 5:"] + asg
        elif kind == "ifelse":
            lines += ["if analog_read('A0') > 5:"] + asg + ["else:"] + list(reversed(asg))
        elif kind == "ifelif":
            lines += ["if analog_read('A0') > 5:"] + asg[: max(1, k // 2)] + ["elif analog_read('A1') > 5:"] + asg[max(1, k // 2):] + asg[:1] + ["else:"] + asg
        elif kind == "while":
            lines += ["w = 2", "while w > 0:", "    w = w - 1"] + asg
        elif kind == "for":
            lines += ["for i in range(2):"] + asg
        elif kind == "else_only":
            lines += ["if analog_read('A0') > 5:", "    sleep(1)", "else:"] + asg
        elif kind == "elif_only":
            lines += ["if analog_read('A0') > 5:", "    sleep(1)", "elif analog_read('A1') > 5:"] + asg + ["else:", "    sleep(2)"]
        elif kind == "except_only":
            lines += ["try:", "    sleep(1)", "except Exception:"] + asg
        elif kind == "split":
            h = max(1, k // 2)
            lines += ["if analog_read('A0') > 5:"] + asg[:h] + ["else:"] + (asg[h:] or ["    sleep(1)"])
        else:
            lines += ["try:"] + asg + ["except Exception:"] + list(reversed(asg))
        for n in group:
            if draw(st.booleans()):
                lines.append(f"mon.write({n})")
    if draw(st.booleans()):
        body = [f"mon.write({s}.measure_distance())" for s in sensors] + [f"mon.write({draw(st.sampled_from(names))})", "sleep(5)"]
        inner = draw(st.lists(st.sampled_from(NAMES), min_size=0, max_size=3, unique=True))
        inner = [n for n in inner if n not in names]
        if inner:
            body += ["if analog_read('A0') > 1:"] + [f"    {n} = 3" for n in inner]
            if len(inner) >= 2:
                multi += 1
        lines += ["while True:"] + ["    " + b for b in body]
    return {"src": "\n".join(lines) + "\n", "multi": multi}


WORKER = r"""
import sys, json, hashlib
sys.path.insert(0, sys.argv[1])
from Reduino.transpile.parser import parse
from Reduino.transpile.emitter import emit
import os
pool = json.load(sys.stdin)
out = []
for src in pool:
    # one forked child per script: every digest comes from the module state right after import, untouched by the other scripts
    rd, wr = os.pipe()
    pid = os.fork()
    if pid == 0:
        os.close(rd)
        try:
            res = hashlib.sha256(emit(parse(src)).encode()).hexdigest()
        except Exception as e:
            res = "EXC:" + type(e).__name__ + ":" + str(e)[:80]
        os.write(wr, res.encode("utf-8", "replace"))
        os._exit(0)
    os.close(wr)
    buf = b""
    while True:
        chunk = os.read(rd, 65536)
        if not chunk:
            break
        buf += chunk
    os.close(rd)
    os.waitpid(pid, 0)
    out.append(buf.decode("utf-8", "replace") if buf else "EXC:child-died")
print(json.dumps(out))
"""


def fresh_digests(pool, hash_seed):
    env = dict(os.environ, PYTHONHASHSEED=str(hash_seed))
    r = subprocess.run(["/venv/bin/python", "-c", WORKER, SRC], input=json.dumps(pool), capture_output=True, text=True, env=env)
    if r.returncode != 0:
        raise RuntimeError("worker failed: " + r.stderr[-400:])
    return json.loads(r.stdout)


def outcome_here(src):
    from Reduino.transpile.emitter import emit
    from Reduino.transpile.parser import parse

    try:
        return hashlib.sha256(emit(parse(src)).encode()).hexdigest()
    except Exception as e:
        return "EXC:" + type(e).__name__ + ":" + str(e)[:80]


def module_state():
    import Reduino.transpile.ast as A
    import Reduino.transpile.emitter as E
    import Reduino.transpile.parser as P

    snap = {}
    for mod in (P, E, A):
        for k, v in vars(mod).items():
            if k.startswith("__") or k == "_VERIF_IGNORED":
                continue
            if isinstance(v, (dict, list, set, frozenset, tuple)):
                try:
                    snap[f"{mod.__name__}.{k}"] = copy.deepcopy(v)
                except Exception:
                    snap[f"{mod.__name__}.{k}"] = repr(v)
    return snap


def plan(tier):
    q = tier == "quick"
    units = [(f"pool-{i}", {"what": "pool", "n": 8 if q else 150}) for i in range(8)]
    units += [(f"hist-{i}", {"what": "hist", "n": 15 if q else 400}) for i in range(8)]
    return units


PROFILE = gs.Profile(name="c10", off=set(gs.DEFAULT_OFF) - {"branch_first_assign"}, devices=0.5, loop_decl=0.3)


def device_matrix(variant):
    """the same script text up to constructor arguments (pins, geometry, baud): every device kind, every method once before and once inside the
    main loop. Anything remembered by device *name* from an earlier transpilation shows in the next one."""
    k = variant
    pins = lambda *a: ", ".join(str(x + 20 * k) for x in a)
    lcd = ["lcd = LCD(rs=22, en=23, d4=24, d5=25, d6=26, d7=27)", "lcd = LCD(rs=30, en=31, d4=32, d5=33, d6=34, d7=35, cols=20, rows=4, backlight_pin=44)", "lcd = LCD(i2c_addr=0x3F, cols=8, rows=1)"][k]
    head = ["from Reduino.Actuators import Led, RGBLed, Servo, DCMotor, Buzzer", "from Reduino.Communication import SerialMonitor", "from Reduino.Displays import LCD",
            "from Reduino.Sensors import Button, Potentiometer, Ultrasonic", "from Reduino.Utils import sleep",
            f"mon = SerialMonitor({[9600, 115200, 57600][k]})", f"led = Led({pins(13)})", f"rgb = RGBLed({pins(9, 10, 11)})",
            f"srv = Servo({pins(6)}" + ["", ", min_angle=10, max_angle=170", ", min_pulse_us=600, max_pulse_us=2300"][k] + ")",
            f"mot = DCMotor({pins(2, 4, 3)})", f"bz = Buzzer({pins(8)}" + ["", ", default_frequency=880", ""][k] + ")", lcd,
            f"pot = Potentiometer('A{k}')", f"us = Ultrasonic({pins(15, 16)})", "def clicked():", "    mon.write('c')", f"btn = Button({pins(7)}, on_click=clicked)"]
    # equal numbers in different spellings (5 / 5.0 / (2 + 3)), explicit arguments equal to the defaults another script leaves out
    num = lambda x: [str(x), f"{x}.0", f"({x - 1} + 1)"][k]
    extra = [["bz.beep(440)", "led.blink(100)", "rgb.fade(1, 2, 3)", "mot.ramp(0.5, 100)"],
             ["bz.beep(440, on_ms=100, off_ms=100, times=1)", "led.blink(100, 1)", "rgb.fade(1, 2, 3, 1000, 50)", "mot.ramp(0.5, 100.0)"],
             ["bz.beep(440.0, on_ms=100.0, off_ms=100.0)", "led.blink(duration_ms=100.0)", "rgb.fade(1, 2, 3, duration_ms=1000.0)", "mot.ramp(target_speed=0.5, duration_ms=100)"]][k]
    extra += [f"sleep({num(5)})", f"bz.play_tone({num(440)}, {num(5)})", f"srv.write({num(45)})", f"led.set_brightness({num(100)})", f"lcd.write({num(0)}, 0, 'n')"]
    calls = extra + ["led.toggle()", "led.blink(2, 2)", "led.fade_in(50, 1)", "led.flash_pattern([1, 0, 1], 2)", "led.set_brightness(90)", "rgb.set_color(1, 2, 3)", "rgb.fade(5, 6, 7, 10, 2)",
             "rgb.blink(1, 2, 3, times=2, delay_ms=3)", "srv.write(90)", "srv.write_us(1500)", "mot.set_speed(0.5)", "mot.ramp(1.0, 10)", "mot.run_for(5, 0.25)", "mot.stop()",
             "bz.play_tone(440, 5)", "bz.beep(440, on_ms=2, off_ms=2, times=2)", "bz.sweep(200, 400, duration_ms=4, steps=2)", "bz.melody('siren')", "bz.melody('notify', tempo=200)",
             "lcd.write(0, 0, 'hi')", "lcd.line(0, 'yo', align='right')", "lcd.message('a')", "lcd.glyph(1, [1, 2, 4, 8, 16, 31, 0, 21])", "lcd.progress(0, 50, 100)", "lcd.brightness(100)" if k == 1 else "lcd.clear()",
             "mon.write(pot.read())", "mon.write(us.measure_distance())", "mon.write(btn.is_pressed())", "mon.write(led.get_brightness())", "mon.write(mot.get_speed())", "mon.write(bz.get_last_frequency())", "sleep(3)"]
    src = head + calls + ["lcd.animate('scroll', 0, 'hello world', speed_ms=5, loop=True)", "while True:"] + ["    " + c for c in calls if not c.startswith("lcd.glyph")]
    return "\n".join(src) + "\n"


def gen_pool(seed, n):
    """n scripts (promotion + grammar) generated deterministically from the shard seed."""
    pool = []

    @hseed(seed)
    @hyp_settings(n, phases=(Phase.generate,))
    @given(promotion_script(), gs.program_strategy(PROFILE))
    def collect(p, g):
        pool.append((p["src"], p["multi"]))
        pool.append((gs.render(g["nodes"]), 0))

    collect()
    # distinct, deterministic order; every third script is followed by a twin that fails late (a rejected statement after its helpers were
    # processed): a transpilation that ends in ValueError must leave nothing behind for the next one either
    seen, out = set(), []
    pool = [(device_matrix(v), 0) for v in range(3)] + pool
    for k, (s, m) in enumerate(pool):
        if s not in seen:
            seen.add(s)
            out.append((s, m))
            if k % 3 == 1:
                lines = s.split("\n")
                at = next((i for i, ln in enumerate(lines) if ln.startswith("while True:")), len(lines) - 1)
                twin = "\n".join(lines[:at] + ["zz1, zz2, zz3 = 1, 2"] + lines[at:])
                if twin not in seen:
                    seen.add(twin)
                    out.append((twin, 0))
    return out


def run_shard(name, seed, tier, what, n):
    r = Result()
    pool = gen_pool(seed, n)
    srcs = [s for s, _ in pool]
    if what == "pool":
        table = {hs: fresh_digests(srcs, hs) for hs in SEEDS}
        table["random"] = fresh_digests(srcs, "random")
        for i, (src, multi) in enumerate(pool):
            ds = {str(hs): table[hs][i] for hs in table}
            r.case({"src": src} if len(r.samples) < 1 else {"h": hashlib.sha256(src.encode()).hexdigest()[:12]}, multi >= 1)
            if len(set(ds.values())) != 1:
                # find two seeds that disagree
                vals = {}
                for hs, d in ds.items():
                    vals.setdefault(d, []).append(hs)
                groups = sorted(vals.values(), key=len, reverse=True)
                fl = {"bucket": "output-depends-on-hash-seed", "case": {"kind": "seeds", "src": src, "seeds": [groups[0][0], groups[1][0]]},
                      "expected": "one digest for all PYTHONHASHSEED values", "observed": f"{len(vals)} different outputs; e.g. seeds {groups[0][0]} vs {groups[1][0]}"}
                if not r.failures or len(src) < len(r.failures[0]["case"]["src"]):
                    r.failures = [fl]
        r.count("hash_seeds", len(table))
        return r
    # histories
    ref = fresh_digests(srcs, 0)
    last = {}
    base_state = module_state()

    @hseed(seed)
    @hyp_settings(n, phases=(Phase.generate,))
    @given(st.lists(st.integers(0, min(len(srcs), 6) - 1), min_size=2, max_size=12), st.one_of(st.just(0), st.integers(0, max(0, len(srcs) - 6))))   # half of the histories run over the window that holds the device-matrix scripts
    def prop(order, off):
        from Reduino.transpile.parser import parse

        idx = [off + i for i in order]
        first_repeat = next((j for j in range(len(idx)) if idx[j] in idx[:j]), len(idx))
        r.case({"history": idx, "pool_seed": seed}, len(set(idx[:first_repeat])) >= 2 and first_repeat < len(idx))
        for step, i in enumerate(idx):
            got = outcome_here(srcs[i])
            if got != ref[i]:
                fl = {"bucket": "history-changes-output", "case": {"kind": "history", "scripts": [srcs[j] for j in idx[: step + 1]]},
                      "expected": "same bytes as in a fresh process", "observed": f"step {step}: digest {got[:16]} vs fresh {ref[i][:16]}"}
                last[fl["bucket"]] = fl
                raise AssertionError
            if not ref[i].startswith("EXC"):
                a, b = parse(srcs[i]), parse(srcs[i])
                if a != b:
                    last["parse-twice-differs"] = {"bucket": "parse-twice-differs", "case": {"kind": "history", "scripts": [srcs[i]]}, "expected": "equal IR", "observed": "IR differs"}
                    raise AssertionError
        now = module_state()
        if now != base_state:
            diff = [k for k in now if now[k] != base_state.get(k)]
            last["module-state-mutated"] = {"bucket": "module-state-mutated", "case": {"kind": "history", "scripts": [srcs[j] for j in idx]},
                                            "expected": "module-level containers unchanged", "observed": str(diff[:5])}
            raise AssertionError

    try:
        prop()
    except AssertionError:
        pass
    r.failures = list(last.values())
    return r


def replay(case):
    if case.get("kind") == "seeds":
        a, b = case["seeds"]
        da, db = fresh_digests([case["src"]], a)[0], fresh_digests([case["src"]], b)[0]
        if da != db:
            return [{"bucket": "output-depends-on-hash-seed", "case": case, "expected": "one digest", "observed": f"seed {a}: {da[:16]} seed {b}: {db[:16]}"}]
        # also sweep all seeds
        ds = {hs: fresh_digests([case["src"]], hs)[0] for hs in SEEDS}
        if len(set(ds.values())) != 1:
            return [{"bucket": "output-depends-on-hash-seed", "case": case, "expected": "one digest", "observed": str(ds)[:200]}]
        return []
    scripts = case["scripts"]
    ref = fresh_digests(scripts, 0)
    before = module_state()
    for i, s in enumerate(scripts):
        if outcome_here(s) != ref[i]:
            return [{"bucket": "history-changes-output", "case": case, "expected": "same bytes as in a fresh process", "observed": f"step {i}"}]
    if module_state() != before:
        return [{"bucket": "module-state-mutated", "case": case, "expected": "unchanged", "observed": "changed"}]
    return []
