"""C09 - generated firmware is memory-safe and does not leak across loop() passes.

List/str-manipulating scripts are generated (IndexError-free by construction, confirmed by the CPython run), built
with clang++ -fsanitize=address,undefined against the mock core and run for N passes.  Oracles: (1) no sanitizer
report; (2) heap monotonicity: when the live data of the Python program is the same after pass k and pass k+1
(k >= 1), the firmware's allocated bytes (ASan allocator interface) after those passes are equal.
"""
from __future__ import annotations

from hypothesis import Phase, given, seed as hseed, strategies as st

from vlib import fwbuild as fb, hostexec as hx
from vlib.runner import Result, hyp_settings

ID = "C09"
LEVEL = "exploration"
RULE = (
    "Hypothesis composes list/str programs: list literals of int/float/str/bool, comprehensions over range(a[,b[,c]]) incl. empty and negative "
    "steps, append/remove (present and absent values), index reads with positive and negative in-range indices (lengths tracked), len(), "
    "self-assignment, re-assignment from literals/comprehensions of equal length, lists created in setup() and mutated in the main loop with "
    "balanced append/remove, read-only list parameters, string building; N in {3, 6}. Built with ASan+UBSan. Non-trivial = >=1 list mutated in "
    "the main loop or re-assigned, and >=3 passes. distinct = distinct script. Classes of open findings (aliasing `b = a`, helpers mutating a list "
    "parameter, lists or list temporaries allocated inside the main loop) are off by construction; their witnesses run."
)
ASSUMPTIONS = ["clang ASan/UBSan on the host with the mock String (std::string backed) stands in for the AVR heap", "leaks inside the real Arduino String class are out of scope"]

HEAD = "from Reduino.Communication import SerialMonitor\nfrom Reduino.Utils import sleep\nmon = SerialMonitor(9600)\n"
OPEN = {"alias", "loop_alloc", "param_mutation", "reassign_in_loop"}

ELEM = {
    "int": st.integers(-50, 300).map(repr),
    "float": st.integers(-40, 40).map(lambda k: repr(k / 4.0)),
    "str": st.text(alphabet="abcxyz", max_size=4).map(repr),
    "bool": st.booleans().map(repr),
}


class B:
    def __init__(self, draw, off):
        self.draw, self.off = draw, off
        self.pro, self.loop, self.pre = [], [], []
        self.lists = {}   # name -> [type, length]
        self.k = 0
        self.mut_in_loop = False
        self.reassigned = False
        self.big = set()

    def nm(self, p):
        self.k += 1
        return f"{p}{self.k}"

    def elem(self, t):
        return self.draw(ELEM[t])

    def operand(self, t, dst, own=None):
        """Value to append/remove: literals only where the emitted template call compiles (int/bool); typed variables otherwise;
        own=(name, n): possibly an element of the list itself (the helper's argument then aliases the buffer it reallocates)."""
        if own and own[1] >= 1 and self.draw(st.integers(0, 3)) == 0:
            return f"{own[0]}[{self.draw(st.integers(-own[1], own[1] - 1))}]"
        if t in ("int", "bool"):
            return self.elem(t)
        v = self.nm("v")
        dst.append(f"{v} = {self.elem(t)}")
        return v

    def new_list(self, dst):
        t = self.draw(st.sampled_from(["int", "int", "float", "str", "bool"]))
        name = self.nm("l")
        form = self.draw(st.sampled_from(["lit", "lit", "comp", "comp3", "empty_then_append"]))
        if form == "lit" or t in ("str", "bool"):
            n = self.draw(st.integers(1, 5))
            dst.append(f"{name} = [{', '.join(self.elem(t) for _ in range(n))}]")
        elif form == "comp":
            a = self.draw(st.integers(0, 3)); b = a + self.draw(st.integers(1, 4))
            body = "j * 2" if t == "int" else "j * 0.5"
            dst.append(f"{name} = [{body} for j in range({a}, {b})]")
            n = b - a
        elif form == "comp3":
            a, b, c = self.draw(st.sampled_from([(0, 7, 2), (6, 0, -2), (5, 0, -1), (1, 10, 3), (10, 1, -4)]))
            body = "j + 1" if t == "int" else "j * 0.25"
            dst.append(f"{name} = [{body} for j in range({a}, {b}, {c})]")
            n = len(range(a, b, c))
        else:
            if t not in ("int", "float"):
                t = "int"
            dst.append(f"{name} = [{self.elem(t)}]")
            n = 1
            for _ in range(self.draw(st.integers(0, 3))):
                dst.append(f"{name}.append({self.operand(t, dst)})")
                n += 1
        self.lists[name] = [t, n]
        return name

    def read(self, dst, name):
        t, n = self.lists[name]
        if n <= 0:
            dst.append(f"mon.write(len({name}))")
            return
        i = self.draw(st.integers(-n, n - 1))
        form = self.draw(st.sampled_from(["lit", "lit", "len_minus", "expr"] + (["arith", "arith"] if t in ("int", "float") and name not in self.big else []) + (["temp"] if dst is self.pro else [])))
        if form == "temp":
            # an index (also negative, also -len) applied to a temporary: a list literal, a comprehension, a helper's result
            k = self.draw(st.integers(1, 3))
            j = self.draw(st.integers(-k, k - 1))
            kind = self.draw(st.sampled_from(["literal", "comp", "call"]))
            if kind == "literal":
                dst.append(f"mon.write([{', '.join(str(7 + q) for q in range(k))}][{j}])")
            elif kind == "comp":
                dst.append(f"mon.write([q * 2 for q in range({k})][{j}])")
            else:
                h = self.nm("mk")
                self.pre += [f"def {h}(n):", "    return [q + 1 for q in range(n)]"]
                dst.append(f"mon.write({h}({k})[{j}])")
            return
        if form == "arith":
            # arithmetic on elements through the emitted helpers (pow, floor division, modulo): every Python value stays far inside 32 bits
            # (|element| <= 300), so the firmware has no excuse for signed overflow or a division trap
            j = self.draw(st.integers(-n, n - 1))
            e = self.draw(st.sampled_from(["{a} ** 2", "{a} ** 3", "{a} * {b}", "abs({a}) ** 2 + {b}", "{a} // 7", "{a} % 7", "({a} * 1000) // 3", "{a} ** 2 - {b} ** 2", "({a} + {b}) ** 2"]))
            e = e.format(a=f"{name}[{i}]", b=f"{name}[{j}]")
            if dst is self.pro and t == "int" and self.draw(st.booleans()):
                q = self.nm("q")
                dst.append(f"{q} = [{name}[j] ** {self.draw(st.sampled_from([2, 2, 3]))} for j in range({n})]")
                dst.append(f"mon.write({q}[{self.draw(st.integers(-n, n - 1))}])")
                self.lists[q] = ["int", n]
                self.big.add(q)   # its elements are powers already: no further arithmetic on them
            else:
                dst.append(f"mon.write({e})")
        elif form == "len_minus":
            # counted from the end through len(): any k in 1..2n is a valid Python index (it may still be negative)
            dst.append(f"mon.write({name}[len({name}) - {self.draw(st.integers(1, 2 * n))}])")
        elif form == "expr":
            dst.append(f"mon.write({name}[{i} + len({name}) - len({name})])")
        else:
            dst.append(f"mon.write({name}[{i}])")
        if self.draw(st.booleans()):
            dst.append(f"mon.write(len({name}))")

    def pro_op(self):
        name = self.draw(st.sampled_from(sorted(self.lists)))
        t, n = self.lists[name]
        op = self.draw(st.sampled_from(["append", "remove_present", "drain_refill", "loop_append", "copy_assign", "skewed_copy", "skewed_copy", "skewed_copy", "skewed_copy", "read", "read", "self_assign", "reassign", "alias", "helper_read", "helper_mutate", "empty_range", "swap_lists", "swap_lists", "cond_assign", "cond_assign"]))
        d = self.pro
        if op == "append":
            d.append(f"{name}.append({self.operand(t, d, (name, n))})"); self.lists[name][1] += 1
        elif op == "remove_present" and n >= 1 and t in ("int", "str"):
            d.append(f"{name}.remove({name}[{self.draw(st.integers(0, n - 1))}])"); self.lists[name][1] -= 1
        elif op == "drain_refill" and n >= 1 and t in ("int", "str"):
            # empty the list element by element (the last remove leaves no buffer), then grow it again from nothing
            d += [f"{name}.remove({name}[0])"] * n + [f"mon.write(len({name}))"]
            k = self.draw(st.integers(0, 2))
            d += [f"{name}.append({self.operand(t, d)})" for _ in range(k)]
            if k == 0 and t == "int" and self.draw(st.booleans()):
                d.append(f"{name} = [{self.elem(t)}]"); k = 1
            self.lists[name][1] = k
        elif op == "loop_append" and t in ("int", "bool"):
            # appends under control flow: the run-time length is not what a statement count suggests
            k = self.draw(st.integers(1, 3))
            form = self.draw(st.sampled_from(["for", "if", "while"]))
            if form == "for":
                d += [f"for q in range({k}):", f"    {name}.append({self.elem(t)})"]
            elif form == "if":
                k = 1
                d += [f"if len({name}) >= 0:", f"    {name}.append({self.elem(t)})"]
            else:
                w = self.nm("w")
                d += [f"{w} = {k}", f"while {w} > 0:", f"    {w} = {w} - 1", f"    {name}.append({self.elem(t)})"]
            self.lists[name][1] += k
        elif op == "skewed_copy" and t in ("int", "bool"):
            # both lists have seen the same *number of append statements*, but one of them inside a loop: equal on paper, different at run time
            others = sorted(o for o, (ot, on) in self.lists.items() if o != name and ot == t and on >= 1)
            if n >= 1 and (not others or self.draw(st.booleans())):
                # a partner of exactly the same length on paper (a fresh literal list)
                src = self.nm("l")
                d.append(f"{src} = [{', '.join(self.elem(t) for _ in range(n))}]")
                self.lists[src] = [t, n]
                others = [src]
            if others and n >= 1:
                src = self.draw(st.sampled_from(others)) if len(others) > 1 else others[0]
                k = self.draw(st.integers(2, 3))
                grow_src = self.draw(st.booleans())
                big, small_ = (src, name) if grow_src else (name, src)
                d += [f"for q in range({k}):", f"    {big}.append({self.elem(t)})", f"{small_}.append({self.elem(t)})"]
                self.lists[big][1] += k
                self.lists[small_][1] += 1
                d += [f"{name} = {src}", f"mon.write(len({name}))", f"mon.write({name}[-1])"]
                self.lists[name][1] = self.lists[src][1]
                if src in self.big:
                    self.big.add(name)
                self.reassigned = True
        elif op == "copy_assign":
            # whole-list assignment between two declared lists of the same element type (deep copy on the device)
            others = sorted(o for o, (ot, on) in self.lists.items() if o != name and ot == t and on >= 1)
            if others:
                src = self.draw(st.sampled_from(others))
                d += [f"{name} = {src}", f"mon.write(len({name}))"]
                self.lists[name][1] = self.lists[src][1]
                if src in self.big:
                    self.big.add(name)
                self.reassigned = True
        elif op == "swap_lists":
            # tuple assignment between declared lists of one element type: swap and three-way rotation (every buffer changes owner exactly once)
            others = sorted(o for o, (ot, on) in self.lists.items() if o != name and ot == t)
            if others:
                o1 = self.draw(st.sampled_from(others))
                rest = [o for o in others if o != o1]
                if rest and self.draw(st.booleans()):
                    o2 = self.draw(st.sampled_from(rest))
                    d.append(f"{name}, {o1}, {o2} = {o1}, {o2}, {name}")
                    ln = [self.lists[x][1] for x in (name, o1, o2)]
                    self.lists[name][1], self.lists[o1][1], self.lists[o2][1] = ln[1], ln[2], ln[0]
                    grp = (name, o1, o2)
                else:
                    d.append(f"{name}, {o1} = {o1}, {name}")
                    self.lists[name][1], self.lists[o1][1] = self.lists[o1][1], self.lists[name][1]
                    grp = (name, o1)
                if any(g in self.big for g in grp):
                    self.big.update(grp)
                for g in grp:
                    d.append(f"mon.write(len({g}))")
                self.reassigned = True
                t, n = self.lists[name]
        elif op == "cond_assign":
            # whole-list assignment from a conditional expression that selects one of two declared lists (the outcome is known when generating)
            others = sorted(o for o, (ot, on) in self.lists.items() if o != name and ot == t and on >= 1)
            if len(others) >= 1:
                o1 = self.draw(st.sampled_from(others))
                o2 = self.draw(st.sampled_from(others + [name]))
                k = self.draw(st.integers(0, 4))
                taken = o1 if self.lists[o1][1] >= k else o2
                d += [f"{name} = {o1} if len({o1}) >= {k} else {o2}", f"mon.write(len({name}))"]
                if taken != name:
                    self.lists[name][1] = self.lists[taken][1]
                    if taken in self.big:
                        self.big.add(name)
                self.reassigned = True
                t, n = self.lists[name]
        elif op == "self_assign":
            d.append(f"{name} = {name}")
        elif op == "reassign" and t in ("int", "float") and n >= 1:
            form = self.draw(st.sampled_from(["lit", "comp"]))
            if form == "lit":
                d.append(f"{name} = [{', '.join(self.elem(t) for _ in range(n))}]")
            else:
                d.append(f"{name} = [{'j' if t == 'int' else 'j * 0.5'} for j in range({n})]")
            self.reassigned = True
        elif op == "alias" and "alias" not in self.off:
            other = self.nm("l")
            d.append(f"{other} = {name}")
            self.lists[other] = [t, n]
            if name in self.big:
                self.big.add(other)
            d.append(f"{other}.append({self.operand(t, d)})"); self.lists[other][1] += 1
        elif op == "helper_read":
            h = self.nm("h")
            self.pre += [f"def {h}(p):", f"    return len(p) + 0"]
            r_ = self.nm("r")
            d += [f"{r_} = {h}({name})", f"mon.write({r_})"]
        elif op == "helper_mutate" and "param_mutation" not in self.off and t == "int":
            h = self.nm("h")
            self.pre += [f"def {h}(p):", f"    p.append({self.elem('int')})", f"    return len(p)"]
            r_ = self.nm("r")
            d += [f"{r_} = {h}({name})", f"mon.write({r_})"]
        elif op == "empty_range":
            e = self.nm("l")
            d.append(f"{e} = [j for j in range({self.draw(st.sampled_from(['0', '3, 3', '5, 2', '2, 5, -1']))})]")
            d.append(f"mon.write(len({e}))")
            self.lists[e] = ["int", 0]
        self.read(d, name)

    def loop_op(self):
        cands = [n for n in self.lists if self.lists[n][1] >= 1]
        if not cands:
            return
        name = self.draw(st.sampled_from(sorted(cands)))
        t, n = self.lists[name]
        op = self.draw(st.sampled_from(["append_remove", "append_remove", "rotate", "drain_refill", "read", "grow", "loop_alloc", "reassign_in_loop", "str_build", "str_const", "swap_lists"]))
        d = self.loop
        if op == "append_remove" and t in ("int", "str"):
            if t == "int":
                v = "777"
            else:
                v = self.nm("v")
                self.pro.append(f"{v} = 'zz9'")
            d += [f"{name}.append({v})", f"mon.write({name}[-1])", f"{name}.remove({v})"]
            self.mut_in_loop = True
        elif op == "rotate" and t in ("int", "str"):
            # [a, b, c] -> append own first element -> remove its first occurrence: constant length, the buffer is reallocated twice
            d += [f"{name}.append({name}[0])", f"mon.write({name}[-1])", f"{name}.remove({name}[-1])"]
            self.mut_in_loop = True
        elif op == "drain_refill" and t in ("int", "str") and n <= 3:
            # every pass empties the list and rebuilds it to the same length: live data constant, buffer freed and re-created
            if t == "int":
                vals = [self.elem("int") for _ in range(n)]
            else:
                v = self.nm("v")
                self.pro.append(f"{v} = 'q7'")
                vals = [v] * n
            d += [f"{name}.remove({name}[0])"] * n + [f"mon.write(len({name}))"] + [f"{name}.append({x})" for x in vals]
            self.mut_in_loop = True
        elif op == "swap_lists":
            # swapped every pass: equal lengths, so every literal index stays valid and the live data is constant
            others = sorted(o for o, (ot, on) in self.lists.items() if o != name and ot == t and on == n)
            if others:
                o1 = self.draw(st.sampled_from(others))
                d += [f"{name}, {o1} = {o1}, {name}", f"mon.write({o1}[0])"]
                if name in self.big or o1 in self.big:
                    self.big.update((name, o1))
                self.mut_in_loop = True
        elif op == "grow":
            d.append(f"{name}.append({self.operand(t, self.pro, (name, n))})")
            d.append(f"mon.write(len({name}))")
            self.mut_in_loop = True
        elif op == "loop_alloc" and "loop_alloc" not in self.off:
            tmp = self.nm("t")
            d += [f"{tmp} = [1, 2, 3]", f"mon.write({tmp}[1])"]
        elif op == "reassign_in_loop" and "reassign_in_loop" not in self.off and t in ("int", "float"):
            d.append(f"{name} = [{', '.join(self.elem(t) for _ in range(n))}]")
            self.reassigned = True
        elif op == "str_build":
            s = self.nm("s")
            self.pro.append(f"{s} = ''")
            d += [f"{s} = {s} + 'ab'", f"mon.write(len({s}))"]
        elif op == "str_const":
            s = self.nm("s")
            self.pro.append(f"{s} = 'seed'")
            d += [f"{s} = 'v' + str(len({name}))", f"mon.write({s})"]
        d.append(f"mon.write({name}[{self.draw(st.sampled_from([0, -1]))}])")


@st.composite
def program(draw, off=frozenset(OPEN)):
    b = B(draw, off)
    for _ in range(draw(st.integers(1, 3))):
        b.new_list(b.pro)
    for _ in range(draw(st.integers(1, 6))):
        b.pro_op()
    for _ in range(draw(st.integers(1, 4))):
        b.loop_op()
    if draw(st.integers(0, 3)) == 0:
        # a list that starts every pass empty and is refilled: the buffer of the previous pass has to be given back
        k = draw(st.integers(1, 3))
        form = draw(st.sampled_from(["literal", "literal", "copy_of_empty"]))
        b.pro.append("e0 = []")
        if form == "copy_of_empty":
            b.pro.append("e9 = []")
        b.loop = (["e0 = []"] if form == "literal" else ["e0 = e9"]) + [f"e0.append({draw(st.integers(0, 99))})" for _ in range(k)] + ["mon.write(len(e0))", "mon.write(e0[-1])"] + b.loop
        b.mut_in_loop = True
    if not b.loop:
        b.loop.append("sleep(1)")
    src = HEAD + "\n".join(b.pre) + ("\n" if b.pre else "") + "\n".join(b.pro) + "\nwhile True:\n" + "\n".join("    " + x for x in b.loop) + "\n"
    return {"src": src, "n": draw(st.sampled_from([3, 6])), "mut_in_loop": b.mut_in_loop, "reassigned": b.reassigned}


def evaluate(case):
    """Returns (status, failures)."""
    src, n = case["src"], case["n"]
    mk = lambda b, e, o: {"bucket": b, "case": {"src": src, "n": n}, "expected": str(e), "observed": str(o)}
    try:
        cpp = fb.transpile(src)
    except ValueError as e:
        return "rejected:" + str(e)[:40], []
    except Exception as e:
        return "rejected-other", []
    host = hx.run_host(src, n, {})
    if "error" in host:
        return "not-well-defined:" + host["error"][:40], []
    live = [e[2] for e in host["events"] if e[1] == "LIVE"]  # before pass 0, before pass 1, ..., at end == after each pass
    with fb.Workdir("c9") as wd:
        try:
            exe = fb.build(cpp, wd, asan=True)
        except fb.CompileError as e:
            return "compile-error", []  # C06's business
        trace = fb.run(exe, n, "", wd)
    if trace.status == "sanitizer" or trace.status.startswith("crash"):
        err = trace.stderr
        kind = "sanitizer"
        for key in ("heap-use-after-free", "double-free", "heap-buffer-overflow", "alloc-dealloc-mismatch", "stack-buffer-overflow", "runtime error", "SEGV", "attempting free"):
            if key in err:
                kind = key.replace(" ", "-")
                break
        first = next((ln for ln in err.splitlines() if "ERROR" in ln or "runtime error" in ln), err[:200])
        return "FAIL", [mk("memory:" + kind, "no sanitizer report", first[:300])]
    if trace.status != "ok":
        return "FAIL", [mk("firmware-" + trace.status, "runs to completion", trace.stderr[-200:])]
    heap = {}
    for t, k, a in trace.events:
        if k == "HEAP":
            w, v = a.split()
            heap[w] = int(v)
    fails = []
    # live[i+1] = live data after pass i (i >= 0); compare passes k and k+1 for k >= 1
    for k in range(1, n - 1):
        if k + 2 < len(live) and live[k + 1] == live[k + 2]:
            h1, h2 = heap.get(f"loop{k}"), heap.get(f"loop{k + 1}")
            if h1 is not None and h2 is not None and h1 != h2:
                fails.append(mk("heap-grows-with-constant-live-data", f"allocated bytes equal after pass {k} and {k + 1} (python live data {live[k + 1]})", f"{h1} -> {h2} bytes"))
                break
    return ("FAIL" if fails else "ok"), fails


def plan(tier):
    n = 20 if tier == "quick" else 400
    return [(f"gen-{i}", {"n": n}) for i in range(16)]


def run_shard(name, seed, tier, n):
    r = Result()
    last = {}

    @hseed(seed)
    @hyp_settings(n, phases=(Phase.generate,))
    @given(program())
    def prop(case):
        status, fails = evaluate(case)
        r.count("status:" + status)
        r.case({"src": case["src"], "n": case["n"]} if len(r.samples) < 1 else {"h": hash(case["src"]) & 0xffffffff, "n": case["n"]},
               status == "ok" and (case["mut_in_loop"] or case["reassigned"]) and case["n"] >= 3)
        for fl in fails:
            if fl["bucket"] not in last or len(case["src"]) < len(last[fl["bucket"]]["case"]["src"]):
                last[fl["bucket"]] = fl

    prop()
    r.failures = list(last.values())
    return r


def replay(case):
    return evaluate(case)[1][:1]
