"""C01 (exotic shards) - expressions outside the documented subset: accepted means translated faithfully.

Typed expression templates over a fixed prelude of int / float / str / bool / list variables, far wider than the supported
subset (bit operators, powers, string indexing and comparison, truthiness of every type, built-ins, methods, slices, membership,
conditional and boolean operators on non-bools, mixed numeric types).  Each instance is placed in a print, an assignment, a
condition or a helper argument/return.  Oracle: ValueError (rejected, counted) or the mock-core trace equals CPython's.
Templates are tagged with the class of an open finding; tagged templates are switched off while that finding is open.
"""
from __future__ import annotations

from hypothesis import strategies as st

PRELUDE = ("from Reduino.Communication import SerialMonitor\nfrom Reduino.Utils import sleep\nmon = SerialMonitor(9600)\n"
           "i0 = 7\ni1 = -3\ni2 = 0\nf0 = 2.5\nf1 = -0.75\ns0 = 'abc'\ns1 = ''\nb0 = True\nb1 = False\nl0 = [3, 1, 2]\nl1 = [5]\nlf = [1.5, 2.5]\n")
POOL = {
    "I": ["i0", "i1", "i2", "5", "0", "-2", "12", "(i0 + 1)"],
    "P": ["i0", "5", "12", "(i0 + 1)", "3"],                 # positive ints
    "F": ["f0", "f1", "0.5", "4.0", "(f0 * 2)"],
    "S": ["s0", "s1", "'xy'", "''", "'12'", "(s0 + 'd')"],
    "T": ["s0", "'xy'", "'12'", "(s0 + 'd')"],               # non-empty strings
    "B": ["b0", "b1", "True", "False", "(i0 > 3)"],
    "L": ["l0", "l1"],
    "k": ["1", "2", "3"],
    "j": ["0", "1", "-1"],
}
# (open-finding class or None, template)
TEMPLATES = [
    (None, "-{I}"), (None, "+{I}"), ("bitwise_not", "~{I}"), (None, "not {B}"), (None, "not {I}"), (None, "not {F}"), (None, "abs({I})"), (None, "abs({F})"),
    (None, "int({F})"), (None, "int({B})"), (None, "int('12')"), (None, "float({I})"), (None, "float('2.5')"), (None, "str({I})"), (None, "str({F})"), ("str_of_bool", "str({B})"),
    (None, "bool({I})"), (None, "bool({F})"), (None, "len({S})"), (None, "len({L})"), ("round", "round({F})"), ("round", "round({F}, 1)"),
    (None, "{I} + {I}"), (None, "{I} - {I}"), (None, "{I} * {I}"), (None, "{I} // {P}"), (None, "{I} % {P}"), (None, "{I} // -{P}"), (None, "{I} % -{P}"), (None, "{I} / {P}"), (None, "{I} / -4"),
    (None, "{I} & {P}"), (None, "{I} | {P}"), (None, "{I} ^ {P}"), (None, "{P} << {k}"), (None, "{I} >> {k}"), (None, "{I} ** {k}"), (None, "{I} ** 0"), ("pow_negative_exponent", "{P} ** -1"),
    (None, "{F} + {I}"), (None, "{F} - {F}"), (None, "{F} * {I}"), (None, "{F} / {P}"), (None, "{F} // {P}"), (None, "{F} % {P}"), (None, "{F} ** 2"), (None, "{I} + {B}"), (None, "{F} * {B}"), (None, "{B} + {B}"), (None, "{B} + {B} + {B}"), (None, "({I} > 3) + ({I} > 3)"), (None, "{B} * 3 + {B}"), (None, "{B} - {B}"), (None, "{B} * {B}"), (None, "-{B}"),
    (None, "{I} < {I}"), (None, "{I} <= {F}"), (None, "{F} > {I}"), (None, "{I} == {I}"), (None, "{I} != {F}"), (None, "{I} == {B}"), (None, "{I} < {I} < {I}"), (None, "{I} <= {I} != {I}"), (None, "{I} > {I} >= {F}"),
    (None, "{B} and {B}"), (None, "{B} or {B}"), (None, "{B} and not {B}"), ("boolop_nonbool", "{I} or {I}"), ("boolop_nonbool", "{I} and {I}"), ("boolop_nonbool", "{B} or {I}"), ("boolop_nonbool", "{S} or {T}"),
    (None, "{I} if {B} else {I}"), (None, "{F} if {B} else {I}"), (None, "{S} if {B} else {T}"), (None, "{I} if {I} else {I}"), (None, "({I} > {I}) + 1"),
    (None, "min({I}, {I})"), (None, "max({I}, {I})"), (None, "min({I}, {I}, {I})"), (None, "max({F}, {I})"), (None, "min({F}, {F})"), (None, "max({I}, {I}) - min({I}, {I})"), ("str_list_ops", "max({L})"), ("str_list_ops", "min({L})"),
    (None, "{S} + {S}"), (None, "{S} + str({I})"), (None, "{S} == {S}"), (None, "{S} != {S}"), ("str_order", "{S} < {S}"), (None, "s0 < {T}"), (None, "s0 >= {S}"), ("str_list_ops", "{S} * {k}"), ("str_index", "{T}[0]"), ("str_index", "{T}[{j}]"),
    ("str_index", "{T}[0] + {T}[1]"), (None, "len({S} + {S})"), (None, "len(str({I}))"), ("str_truth", "not {S}"), ("str_truth", "bool({S})"), ("str_truth", "{S} and {B}"),
    (None, "{L}[0]"), (None, "{L}[-1]"), (None, "l0[{j}] + l0[1]"), (None, "l0[i0 - 6]"), (None, "len({L}) > 1"), ("str_list_ops", "{L} + {L}"), ("str_list_ops", "{L} * {k}"), ("str_list_ops", "{L} == {L}"), ("str_list_ops", "str({L})"),
    ("str_truth", "bool({L})"), ("str_truth", "not {L}"), (None, "[{I}, {I}][0]"), (None, "lf[0] + lf[1]"), (None, "lf[{j}] * 2"),
    (None, "{I} in {L}"), (None, "{I} not in {L}"), (None, "{T} in {S}"), (None, "{L}[1:]"), (None, "{S}[1:]"), (None, "{S}[::-1]"), (None, "{S}.upper()"), (None, "{S}.find('b')"), (None, "{L}.index(1)"),
    (None, "sum({L})"), (None, "sorted({L})[0]"), (None, "ord({T}[0])"), (None, "chr(65)"), (None, "divmod({I}, {P})[0]"), (None, "hex({I})"), (None, "any([{B}, {B}])"), (None, "len(range({P}))"), (None, "list(range(3))[0]"),
    (None, "pow({I}, 2)"), (None, "({I}, {I})[0]"), (None, "{{1: 2}}[1]"), (None, "(lambda a: a + 1)({I})"), (None, "{I} is None"), (None, "f'{{{I}:03d}}'"), (None, "f'{{{F}:.1f}}'"), (None, "f'{{{I}}}-{{{S}}}'"),
    (None, "'%d' % {I}"), (None, "'{{}}'.format({I})"), (None, "0x10 + 0b101 + 1_000"), (None, "1e3 + {I}"), (None, "'a' 'b' + s0"), (None, "{I} * {I} * {I} * {I}"),
]
# no context re-binds a name to another type: that is the separate, open `retype` class
CONTEXTS = ["mon.write({E})", "v = {E}\nmon.write(v)", "if {E}:\n    mon.write(1)\nelse:\n    mon.write(0)", "def hx():\n    return {E}\nmon.write(hx())",
            "while True:\n    mon.write({E})\n    sleep(1)", "v = {E}\nu = v\nmon.write(u)"]


_ENV = {"i0": 7, "i1": -3, "i2": 0, "f0": 2.5, "f1": -0.75, "s0": "abc", "s1": "", "b0": True, "b1": False, "l0": [3, 1, 2], "l1": [5], "lf": [1.5, 2.5]}


@st.composite
def exotic_case(draw, off):
    active = [(c, t) for c, t in TEMPLATES if c is None or c not in off]
    cls, tmpl = active[draw(st.integers(0, len(active) - 1))]
    text = ""
    i = 0
    while i < len(tmpl):
        ch = tmpl[i]
        if ch == "{" and i + 2 < len(tmpl) and tmpl[i + 2] == "}" and tmpl[i + 1] in POOL and not tmpl.startswith("{{", i):
            pool = POOL[tmpl[i + 1]]
            text += pool[draw(st.integers(0, len(pool) - 1))]
            i += 3
        elif tmpl.startswith("{{", i) or tmpl.startswith("}}", i):
            text += ch
            i += 2
        else:
            text += ch
            i += 1
    if "str_lit_plus_lit" in off:
        import re as _re

        # literal + literal is the open str_lit_plus_lit class: route the right literal through a variable instead
        text = _re.sub(r"('[^']*') \+ '[^']*'", r"\1 + s0", text)
    ctx = CONTEXTS[draw(st.integers(0, len(CONTEXTS) - 1))]
    if ctx.startswith("if ") and "str_truth" in off:
        # a String / list in a boolean position is the open truthiness class: decide on the Python value of this instance
        import warnings

        try:
            with warnings.catch_warnings():
                warnings.simplefilter("ignore")
                val = eval(text, {"__builtins__": __builtins__}, dict(_ENV))
        except Exception:
            val = None
        if isinstance(val, (str, list, tuple, dict)):
            ctx = CONTEXTS[0]
    n = 2 if ctx.startswith("while True") else 0
    return {"src": PRELUDE + ctx.replace("{E}", text) + "\n", "n": n, "tape": {"digital": {}, "analog": {}}, "template": tmpl, "cls": cls}
