"""C12 - target(): validate first, transpile faithfully, upload only on request.

Configurations x fault points are enumerated exhaustively (fault_enumeration) and extended with Hypothesis-drawn
combinations (ports, double faults). Nothing real is executed: subprocess, tempfile.mkdtemp, __main__ and the
pathlib write primitives are replaced by recording fakes; the fake `pio` honours `check=` the way subprocess does, so
a build that fails really does fail.
"""
from __future__ import annotations

import configparser
import contextlib
import errno
import io
import itertools
import os
import pathlib
import shutil
import subprocess
import sys
import tempfile
import types

from hypothesis import given, seed as hseed, strategies as st

from vlib.runner import HarnessError, Result, hyp_settings

ID = "C12"
LEVEL = "fault_enumeration"
RULE = (
    "All combinations of script (10: plain, Servo, parallel LCD, I2C LCD, several libraries, rejected by the parser, ...) x "
    "(platform, board) class (2 valid, mismatched, unknown board, unknown platform) x upload x PlatformIO state (present, "
    "missing executable, failing executable; failing tools exit with 1, 2, 127, 255, -2, -9, -15 or cannot be started) x single fault point (none, script file unreadable, __main__ without "
    "__file__, mkdtemp fails, mkdir fails, 1st write fails, 2nd write fails, build fails, upload fails) are enumerated; "
    "Hypothesis adds random ports and double faults. Oracle = reference model written from the statement. "
    "Non-trivial = case with an injected fault, upload=True, an invalid pair, absent PlatformIO or a script needing a library; "
    "distinct = distinct configuration."
)
ASSUMPTIONS = [
    "real pio is never run; the fake honours check=True/False like subprocess.run",
    "target() reaches the file system through pathlib (mkdir/write_text/read_text) and tempfile.mkdtemp; a fault that is never reached is counted as fault_not_reached, not judged",
    "calling `pio --version` while upload=False is tolerated (the statement only says PlatformIO is not *needed*)",
]

HEAD = "from Reduino import target\nfrom Reduino.Actuators import Led, Servo\nfrom Reduino.Displays import LCD\nfrom Reduino.Utils import sleep\n"
SCRIPTS = {
    "led": (HEAD + "target('COM3')\nled = Led(13)\nwhile True:\n    led.toggle()\n    sleep(250)\n", []),
    "empty": ("", []),
    "unicode": ("# héllo wörld ✓\nfrom Reduino.Actuators import Led\nled = Led(5)\nled.on()\n", []),
    "servo": (HEAD + "s = Servo(9)\nwhile True:\n    s.write(10)\n    sleep(5)\n", ["Servo"]),
    "servo-in-loop": (HEAD + "while True:\n    s = Servo(9)\n    s.write(10)\n", ["Servo"]),
    "lcd-par": (HEAD + "lcd = LCD(rs=12, en=11, d4=5, d5=4, d6=3, d7=2)\nlcd.write(0, 0, 'hi')\n", ["LiquidCrystal"]),
    "lcd-i2c": (HEAD + "lcd = LCD(i2c_addr=0x27)\nlcd.write(0, 0, 'hi')\n", ["LiquidCrystal_I2C"]),
    "all-libs": (HEAD + "a = Servo(9)\nb = Servo(10)\nl1 = LCD(rs=12, en=11, d4=5, d5=4, d6=3, d7=2)\nl2 = LCD(i2c_addr=0x27)\nl1.write(0, 0, 'x')\nl2.write(0, 0, 'y')\na.write(5)\nb.write(6)\n", ["Servo", "LiquidCrystal", "LiquidCrystal_I2C"]),
    "decoy": ("from Reduino.Actuators import Led\nServo_name = 'Servo(9) LiquidCrystal'\nled = Led(3)\nled.on()\n", []),
    # characters a reader of the file might be tempted to normalise: the firmware is that of the text as written
    "tab-in-string": ("from Reduino.Communication import SerialMonitor\nmon = SerialMonitor(9600)\nmon.write('a\tb')\nx = 'k\t\tv'\nmon.write(x)\nmon.write('end \t')\n", []),
    "tab-indent": (HEAD + "led = Led(13)\nwhile True:\n\tled.toggle()\n\tif True:\n\t\tsleep(5)\n", []),
    "odd-spaces": ("from Reduino.Communication import SerialMonitor\nmon = SerialMonitor(9600)\nmon.write('a  b   c')\nmon.write(' lead')\nmon.write('trail ')   \nmon.write('nb\u00a0sp \u2003 em')\n", []),
    "rejected": (HEAD + "while True:\n    break\n", None),  # parser raises ValueError
}
PAIRS = {
    "valid-avr": ("atmelavr", "uno"),
    "valid-mega": ("atmelmegaavr", "nano_every"),
    "valid-hyphen": ("atmelavr", "digispark-tiny"),   # board ids that are not identifiers: the env name is derived, the board key is not
    "valid-mixedcase": ("atmelavr", "a-star32U4"),
    "mismatch": ("atmelavr", "nano_every"),
    "unknown-board": ("atmelavr", "uno "),
    "unknown-board-case": ("atmelavr", "UNO"),            # board ids are case-sensitive: near misses are rejected like any unknown id
    "unknown-board-case2": ("atmelmegaavr", "Nano_Every"),
    "unknown-board-alias": ("atmelavr", "digispark_tiny"),
    "unknown-platform-case": ("AtmelAVR", "uno"),
    "unknown-platform": ("espressif32", "uno"),
}
PIO = ["present", "missing", "failing"]
FAULTS = ["none", "main-unreadable", "main-no-file", "mkdtemp", "mkdir", "write1", "write2", "build", "upload"]


class _Injected(OSError):
    pass


class _Tool(subprocess.CalledProcessError):
    pass


class _InjectedTool(OSError):
    pass


# exit statuses of a failing tool: ordinary errors, shell conventions, and negative values (killed by SIGINT / SIGKILL / SIGTERM)
RCS = [1, 2, 127, 255, -2, -9, -15, "oserror"]


def drive(case):
    """Run target() under the recording harness; return observation dict."""
    import Reduino

    text, _ = SCRIPTS[case["script"]]
    platform, board = PAIRS[case["pair"]]
    faults = set(case["faults"])
    work = pathlib.Path(tempfile.mkdtemp(prefix="c12-"))
    rec = {"calls": [], "mkdtemp": 0, "main_read": 0, "fired": set(), "writes": 0}
    main = work / "script.py"
    main.write_text(text, encoding="utf-8", newline="")
    if "main-unreadable" in faults:
        main.unlink()
    fake_main = types.ModuleType("__main__")
    if "main-no-file" not in faults:
        fake_main.__file__ = str(main)
    real = {"main": sys.modules["__main__"], "run": subprocess.run, "mk": tempfile.mkdtemp, "wt": pathlib.Path.write_text,
            "mkdir": pathlib.Path.mkdir, "rt": pathlib.Path.read_text, "popen": subprocess.Popen, "cc": subprocess.check_call,
            "call": subprocess.call, "co": subprocess.check_output, "system": os.system}
    projdir = work / "proj"

    def fake_run(cmd, check=False, **kw):
        cmd = list(cmd)
        rec["calls"].append((tuple(cmd), str(kw.get("cwd")) if kw.get("cwd") is not None else None))
        fail = False
        if cmd[:1] == ["pio"] and case["pio"] == "missing":
            rec["fired"].add("pio-missing")
            raise FileNotFoundError(errno.ENOENT, "No such file or directory: 'pio'")
        if cmd == ["pio", "--version"] and case["pio"] == "failing":
            fail = True
        if cmd == ["pio", "run"] and "build" in faults:
            rec["fired"].add("build")
            fail = True
        if cmd == ["pio", "run", "-t", "upload"] and "upload" in faults:
            rec["fired"].add("upload")
            fail = True
        if fail:
            rc = case.get("rc", 1)
            if rc == "oserror":  # the tool could not be started at this point (permissions, exec format, ...)
                raise _Tool(126, cmd) if cmd == ["pio", "--version"] else _InjectedTool(errno.EACCES, "injected: cannot execute pio")
            if check:
                raise _Tool(rc, cmd)
            return subprocess.CompletedProcess(cmd, rc)
        return subprocess.CompletedProcess(cmd, 0, stdout=b"", stderr=b"")

    def fake_check_call(cmd, **kw):
        fake_run(cmd, check=True, **kw)
        return 0

    def fake_call(cmd, **kw):
        return fake_run(cmd, check=False, **kw).returncode

    def fake_check_output(cmd, **kw):
        fake_run(cmd, check=True, **kw)
        return b""

    def fake_popen(*a, **k):
        raise HarnessError("target() used subprocess.Popen directly: not modelled by the C12 harness")

    def fake_system(cmd):
        return fake_call(cmd.split())

    def fake_mk(*a, **kw):
        rec["mkdtemp"] += 1
        if "mkdtemp" in faults:
            rec["fired"].add("mkdtemp")
            raise _Injected(errno.ENOSPC, "injected: mkdtemp")
        projdir.mkdir()
        return str(projdir)

    def in_proj(p):
        try:
            pathlib.Path(p).relative_to(projdir)
            return True
        except ValueError:
            return False

    def fake_wt(self, *a, **kw):
        if in_proj(self):
            rec["writes"] += 1
            if ("write1" in faults and rec["writes"] == 1) or ("write2" in faults and rec["writes"] == 2):
                rec["fired"].add(f"write{rec['writes']}")
                raise _Injected(errno.ENOSPC, f"injected: write {self.name}")
        return real["wt"](self, *a, **kw)

    def fake_mkdir(self, *a, **kw):
        if in_proj(self) and self != projdir and "mkdir" in faults:
            rec["fired"].add("mkdir")
            raise _Injected(errno.EACCES, "injected: mkdir")
        return real["mkdir"](self, *a, **kw)

    def fake_rt(self, *a, **kw):
        if pathlib.Path(self) == main:
            rec["main_read"] += 1
        return real["rt"](self, *a, **kw)

    sys.modules["__main__"] = fake_main
    subprocess.run, subprocess.Popen, subprocess.check_call = fake_run, fake_popen, fake_check_call
    subprocess.call, subprocess.check_output, os.system = fake_call, fake_check_output, fake_system
    tempfile.mkdtemp = fake_mk
    pathlib.Path.write_text, pathlib.Path.mkdir, pathlib.Path.read_text = fake_wt, fake_mkdir, fake_rt
    err = io.StringIO()
    try:
        with contextlib.redirect_stderr(err), contextlib.redirect_stdout(io.StringIO()):
            try:
                out = ("return", Reduino.target(case["port"], upload=case["upload"], platform=platform, board=board))
            except HarnessError:
                raise
            except BaseException as e:  # noqa
                out = ("raise", e)
    finally:
        sys.modules["__main__"] = real["main"]
        subprocess.run, subprocess.Popen, subprocess.check_call = real["run"], real["popen"], real["cc"]
        subprocess.call, subprocess.check_output, os.system = real["call"], real["co"], real["system"]
        tempfile.mkdtemp = real["mk"]
        pathlib.Path.write_text, pathlib.Path.mkdir, pathlib.Path.read_text = real["wt"], real["mkdir"], real["rt"]
    files = {}
    for p in work.rglob("*"):
        if p.is_file() and p != main:
            files[str(p.relative_to(work))] = p.read_bytes()
    shutil.rmtree(work, ignore_errors=True)
    rec["projdir"] = str(projdir)
    return out, rec, files


def model_and_compare(case):
    """Reference model from the statement; returns (failures, info)."""
    from Reduino.transpile.emitter import emit
    from Reduino.transpile.parser import parse

    text, libs = SCRIPTS[case["script"]]
    platform, board = PAIRS[case["pair"]]
    faults = set(case["faults"])
    out, rec, files = drive(case)
    fails = []

    def bad(bucket, expected, observed):
        fails.append({"bucket": bucket, "case": case, "expected": str(expected), "observed": str(observed)})

    kind = out[0]
    exc = out[1] if kind == "raise" else None
    calls = [c for c, _ in rec["calls"]]
    run_calls = [c for c in calls if c != ("pio", "--version")]
    desc = f"{kind} {type(exc).__name__ + ': ' + str(exc)[:80] if exc is not None else ''} calls={calls} files={sorted(files)}"

    # 1. invalid pair: ValueError, zero effects
    if not case["pair"].startswith("valid"):
        if not isinstance(exc, ValueError):
            bad("invalid-pair-not-rejected", "ValueError", desc)
        if calls or files or rec["mkdtemp"] or rec["main_read"]:
            bad("invalid-pair-has-effects", "no subprocess call, no file, script not read", desc)
        return fails, rec
    # 2. PlatformIO missing and upload requested: RuntimeError before anything is written
    if case["upload"] and case["pio"] != "present":
        if not isinstance(exc, RuntimeError):
            bad("missing-pio-upload-not-runtimeerror", "RuntimeError", desc)
        if files or rec["mkdtemp"]:
            bad("missing-pio-upload-wrote-files", "nothing written", desc)
        if run_calls:
            bad("missing-pio-upload-ran-tool", "no pio run", desc)
        return fails, rec
    # from here PlatformIO is either present or not needed (upload False)
    if not case["upload"] and run_calls:
        bad("ran-pio-without-upload", "no pio run when upload=False", desc)
    # 3. faults before/within transpilation
    if "main-no-file" in faults or "main-unreadable" in faults:
        if kind != "raise":
            bad("script-unreadable-swallowed", "an exception", desc)
        if files or run_calls:
            bad("script-unreadable-has-effects", "nothing written / run", desc)
        return fails, rec
    if libs is None:  # parser rejects
        if not isinstance(exc, ValueError):
            bad("rejected-script-not-valueerror", "ValueError from the transpiler", desc)
        if files or run_calls:
            bad("rejected-script-has-effects", "nothing written / run", desc)
        return fails, rec
    expected_cpp = emit(parse(text))
    io_fault = next((f for f in ("mkdtemp", "mkdir", "write1", "write2") if f in faults), None)
    if io_fault:
        if io_fault not in rec["fired"]:
            rec["not_reached"] = io_fault
            if kind == "raise":
                bad("unexpected-exception", "success (fault not reached)", desc)
            return fails, rec
        if not isinstance(exc, _Injected):
            bad("io-failure-swallowed", f"injected OSError from {io_fault} propagates", desc)
        if run_calls:
            bad("io-failure-then-tool-run", "no pio run after a failed write", desc)
        return fails, rec
    # 4. build / upload
    want_runs = [("pio", "run"), ("pio", "run", "-t", "upload")] if case["upload"] else []
    if case["upload"] and "build" in faults:
        want_runs = want_runs[:1]
        if not isinstance(exc, (_Tool, _InjectedTool)):
            bad("build-failure-swallowed", "the tool's failure (CalledProcessError / OSError) propagates", desc)
    elif case["upload"] and "upload" in faults:
        if not isinstance(exc, (_Tool, _InjectedTool)):
            bad("upload-failure-swallowed", "the tool's failure (CalledProcessError / OSError) propagates", desc)
    else:
        if kind != "return":
            bad("unexpected-exception", "returns the firmware source", desc)
        elif out[1] != expected_cpp:
            bad("return-not-firmware-source", expected_cpp[:200], repr(out[1])[:200])
    if run_calls != want_runs:
        bad("tool-invocations", want_runs, run_calls)
    for c, cwd in rec["calls"]:
        if c != ("pio", "--version") and cwd != rec["projdir"]:
            bad("tool-cwd", rec["projdir"], cwd)
    # 5. project content
    main_cpp = files.get("proj/src/main.cpp")
    if main_cpp != expected_cpp.encode("utf-8"):
        bad("main-cpp-differs", "bytes of emit(parse(script))", repr(main_cpp)[:120])
    ini = files.get("proj/platformio.ini")
    try:
        cp = configparser.ConfigParser(interpolation=None)
        cp.optionxform = str
        cp.read_string((ini or b"").decode("utf-8"))
        secs = cp.sections()
        sec = dict(cp[secs[0]]) if len(secs) == 1 else {}
    except Exception as e:
        secs, sec = [], {"error": repr(e)}
    got_libs = [ln.strip() for ln in sec.pop("lib_deps", "").splitlines() if ln.strip()]
    want = {"platform": platform, "board": board, "framework": "arduino", "upload_port": case["port"]}
    if len(secs) != 1 or sec != want:
        bad("ini-config", want, f"sections={secs} {sec}")
    if got_libs != libs:
        bad("ini-lib-deps", libs, got_libs)
    extra = sorted(set(files) - {"proj/src/main.cpp", "proj/platformio.ini"})
    if extra:
        bad("extra-files", "only main.cpp and platformio.ini", extra)
    if rec["main_read"] < 1:
        bad("script-not-read", "reads __main__.__file__", desc)
    return fails, rec


def nontrivial(case):
    return bool(case["faults"]) or case["upload"] or not case["pair"].startswith("valid") or case["pio"] != "present" or bool(SCRIPTS[case["script"]][1])


def cross_pairs():
    """every registered board paired with each platform it is *not* registered for (a board listed under both platforms belongs to neither
    'exactly'): all of them are mismatched pairs"""
    from Reduino.toolchain import pio

    sets = {"atmelavr": pio.SUPPORTED_ATMELAVR_BOARDS, "atmelmegaavr": pio.SUPPORTED_ATMELMEGAAVR_BOARDS}
    out = []
    for plat in sorted(sets):
        for other in sorted(sets):
            if other == plat:
                continue
            for board in sorted(sets[other]):
                out.append((plat, board))
        for board in sorted(sets[plat]):
            if any(board in sets[o] for o in sets if o != plat):
                out.append((plat, board))
    return sorted(set(out))


def plan(tier):
    units = [(f"enum-{i}", {"part": i, "parts": 8}) for i in range(8)] + [(f"cross-{i}", {"part": i, "parts": 2}) for i in range(2)]
    n = 100 if tier == "quick" else 3000
    units += [(f"random-{i}", {"n": n}) for i in range(8)]
    return units


def all_cases():
    for s, p, u, pio, f in itertools.product(SCRIPTS, PAIRS, [False, True], PIO, FAULTS):
        for rc in (RCS if (f in ("build", "upload") or pio == "failing") else [1]):
            yield {"script": s, "pair": p, "upload": u, "pio": pio, "faults": [] if f == "none" else [f], "port": "COM3", "rc": rc}


def run_shard(name, seed, tier, **kw):
    r = Result()
    if name.startswith("cross"):
        for i, (plat, board) in enumerate(cross_pairs()):
            if i % kw["parts"] != kw["part"]:
                continue
            key = f"mismatch:{plat}:{board}"
            PAIRS[key] = (plat, board)
            for upload in (False, True):
                case = {"script": "led", "pair": key, "upload": upload, "pio": "present", "faults": [], "port": "COM3", "rc": 1, "pair_value": [plat, board]}
                fails, rec = model_and_compare(case)
                r.evaluations += 1
                r.nontrivial_enum += 1
                r.failures.extend(fails[:1])
            if i % 100 == kw["part"]:
                r.samples.append(case)
        r.exhaustive = True
        return r
    if name.startswith("enum"):
        for i, case in enumerate(all_cases()):
            if i % kw["parts"] != kw["part"]:
                continue
            fails, rec = model_and_compare(case)
            r.evaluations += 1
            if nontrivial(case):
                r.nontrivial_enum += 1
            if rec.get("not_reached"):
                r.count("fault_not_reached")
            for f in case["faults"]:
                if f in rec["fired"]:
                    r.count(f"fired:{f}")
            r.failures.extend(fails)
            if i % 400 == kw["part"]:
                r.samples.append(case)
        r.exhaustive = True
        return r
    last = {}
    port_st = st.one_of(st.sampled_from(["COM3", "/dev/ttyACM0", "/dev/cu.usbserial-1410", "a b", "x=y", "p;q", "%d", "COM9", "COM10", "COM12", "com27", "COM256", "\\\\.\\COM10", "COM1:", "LPT1",
                                         "/dev/ttyUSB10", "/dev/serial/by-id/usb-1a86_USB2.0-Serial-if00-port0", "192.168.1.7:8266", "socket://host:23", "rfc2217://h:4000", "tty.usbmodem14101"]),
                        st.text(alphabet="abcXYZ019/._-:=;%# ", min_size=1, max_size=12).map(str.strip).filter(bool))
    case_st = st.fixed_dictionaries({
        "script": st.sampled_from(sorted(SCRIPTS)), "pair": st.sampled_from(sorted(PAIRS)), "upload": st.booleans(),
        "pio": st.sampled_from(PIO), "faults": st.lists(st.sampled_from(FAULTS[1:]), max_size=3, unique=True), "port": port_st, "rc": st.sampled_from(RCS)})

    @hseed(seed)
    @hyp_settings(kw["n"])
    @given(case_st)
    def prop(case):
        case = dict(case, faults=sorted(case["faults"], key=FAULTS.index))
        fails, rec = model_and_compare(case)
        r.case(case, nontrivial(case))
        if len(case["faults"]) >= 2:
            r.count("double_fault_cases")
        if fails:
            for fl in fails:
                last[fl["bucket"]] = fl
            raise AssertionError(fails[0]["bucket"])

    try:
        prop()
    except AssertionError:
        pass
    r.failures = list(last.values())
    return r


def replay(case):
    if case.get("pair_value"):
        PAIRS[case["pair"]] = tuple(case["pair_value"])
    return model_and_compare(case)[0]
