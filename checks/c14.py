"""C14 - library deps, #includes and instantiated library classes always agree.

Five independently derived sets must be equal for every generated script:
  L_script  what the generator knows it declared (devices that need a library)
  L_req     Reduino._collect_required_libraries(parse(src))
  L_ini     lib_deps read back (configparser) from the platformio.ini that write_project() writes for L_req
  L_inc     headers on #include lines of the emitted text, mapped to libraries
  L_obj     classes of global object definitions in the emitted text (literals/comments skipped)
and no library / include is listed twice; a sample of sketches is linked against the mock library headers.
"""
from __future__ import annotations

import re
import zlib

from hypothesis import Phase, given, seed as hseed, strategies as st

from checks.c06 import strip_literals
from vlib import fwbuild as fb
from vlib.runner import Result, hyp_settings

ID = "C14"
LEVEL = "exploration"
RULE = (
    "Hypothesis draws a multiset of devices: 0-3 servos (each in the prologue or at the top of the main-loop body), 0-2 parallel LCDs, "
    "0-2 I2C LCDs (prologue, in any interleaving with the parallel ones; bus addresses incl. 0 and constant expressions), other devices, helpers, lists, plus decoys that merely *mention* library names (identifiers like Servo_count, "
    "strings like '#include <Servo.h>', comments). Oracle: equality of the five independently derived library sets (script, requested list, lib_deps of the written platformio.ini, #includes, instantiated classes), Wire.h accompanies the "
    "I2C header, nothing listed twice; every 3rd sketch is linked against the mock headers. Non-trivial = >=1 library-backed device or a decoy. "
    "distinct = distinct script."
)
ASSUMPTIONS = ["library versions / registry names on PlatformIO are not checkable offline", "LCDs are declared before the main loop (the property's domain)"]

HEADER_TO_LIB = {"Servo.h": "Servo", "LiquidCrystal.h": "LiquidCrystal", "LiquidCrystal_I2C.h": "LiquidCrystal_I2C"}
HEAD = ("from Reduino.Actuators import Led, Servo, RGBLed, Buzzer, DCMotor\nfrom Reduino.Communication import SerialMonitor\nfrom Reduino.Displays import LCD\n"
        "from Reduino.Sensors import Button, Potentiometer, Ultrasonic\nfrom Reduino.Utils import sleep\nmon = SerialMonitor(9600)\n")
DECOYS = ["Servo_count = 3", "servo = 5", "LiquidCrystal_note = 'LiquidCrystal lcd(1,2,3)'", "msg = '#include <Servo.h>'", "# Servo s; LiquidCrystal_I2C x(0x27,16,2);",
          "txt = \"Servo myservo;\"", "Wire_len = 2", "mon.write('LiquidCrystal_I2C')", "lcd_cols = 16", "i2c = 39"]
OTHERS = ["led = Led(13)", "rgb = RGBLed(9, 10, 11)", "bz = Buzzer(8)", "mot = DCMotor(2, 4, 3)", "pot = Potentiometer('A1')", "us = Ultrasonic(7, 8)", "btn = Button(12)", "xs = [1, 2, 3]"]


@st.composite
def script(draw):
    pro, loop = [], []
    expect = set()
    n_servo = draw(st.integers(0, 3))
    for i in range(n_servo):
        decl = f"sv{i} = Servo({3 + i}" + draw(st.sampled_from([")", ", min_angle=10, max_angle=170)"]))
        use = f"sv{i}.write({draw(st.integers(0, 180))})"
        if draw(st.booleans()):
            loop += [decl] + ([use] if draw(st.booleans()) else [])
        else:
            pro += [decl] + ([use] if draw(st.booleans()) else [])
        expect.add("Servo")
    lcd_start = len(pro)
    for i in range(draw(st.integers(0, 2))):
        pro.append(f"lp{i} = LCD(rs=12, en=11, d4=5, d5=4, d6=3, d7=2" + draw(st.sampled_from([")", ", cols=20, rows=4)", ", backlight_pin=10)", ", rw=10)", ", rw=10, cols=20, rows=4)", ", rw=7, backlight_pin=9)"])))
        if draw(st.booleans()):
            pro.append(f"lp{i}.write(0, 0, 'hi')")
        expect.add("LiquidCrystal")
    for i in range(draw(st.integers(0, 2))):
        pro.append(f"li{i} = LCD(i2c_addr={draw(st.sampled_from(['0x27', '39', '0x3F', '0', '0x00', '(39 - 39)', '1', '0x7F']))}" + draw(st.sampled_from([")", ", cols=20, rows=4)"])))
        if draw(st.booleans()):
            pro.append(f"li{i}.line(0, 'x')")
        expect.add("LiquidCrystal_I2C")
    # the displays in any order (parallel, I2C, parallel ...): group each declaration with its optional use line, then permute the groups
    groups, cur = [], []
    for ln in pro[lcd_start:]:
        if " = LCD(" in ln and cur:
            groups.append(cur)
            cur = []
        cur.append(ln)
    if cur:
        groups.append(cur)
    order = draw(st.permutations(list(range(len(groups))))) if groups else []
    pro[lcd_start:] = [ln for gi in order for ln in groups[gi]]
    decoys = draw(st.lists(st.sampled_from(DECOYS), max_size=3, unique=True))
    others = draw(st.lists(st.sampled_from(OTHERS), max_size=4, unique=True))
    body = pro + decoys + others
    body = draw(st.permutations(body)) if False else body
    # keep declaration-before-use: decoys/others interleaved at random positions
    merged = list(pro)
    for x in decoys + others:
        merged.insert(draw(st.integers(0, len(merged))), x)
    # a use line must follow its declaration: re-sort uses after decls
    fixed, pending = [], []
    declared = set()
    for ln in merged:
        m = re.match(r"(\w+)\.", ln)
        if m and m.group(1) not in declared:
            pending.append(ln)
            continue
        fixed.append(ln)
        d = re.match(r"(\w+) = ", ln)
        if d:
            declared.add(d.group(1))
            for pl in [p for p in pending if p.startswith(d.group(1) + ".")]:
                fixed.append(pl)
                pending.remove(pl)
    src = HEAD
    if draw(st.booleans()):
        src += "def helper(a):\n    return a + 1\n"
    src += "\n".join(fixed) + "\n"
    if loop or draw(st.booleans()):
        src += "while True:\n" + "\n".join("    " + x for x in (loop + ["sleep(5)"])) + "\n"
    # the project directory may be one an earlier upload of another version of the script left behind (other libraries in its platformio.ini)
    prev = draw(st.one_of(st.none(), st.lists(st.sampled_from(["Servo", "LiquidCrystal", "LiquidCrystal_I2C", "OtherLib"]), max_size=3)))
    # ... for any registered target: what a script needs does not depend on the board it is built for
    pair = draw(st.sampled_from([None, None, ["atmelavr", "uno"], ["atmelmegaavr", "nano_every"], ["atmelmegaavr", "uno_wifi_rev2"], ["atmelavr", "digispark-tiny"], ["atmelavr", "megaatmega2560"]]))
    return {"src": src, "expect": sorted(expect), "decoys": len(decoys), "prev_libs": prev, "pair": pair}


GLOBAL_OBJ = re.compile(r"^(Servo|LiquidCrystal_I2C|LiquidCrystal)\s+([A-Za-z_]\w*)\s*(?:\(|;)", re.M)
INCLUDE = re.compile(r"^\s*#\s*include\s*<([^>]+)>", re.M)


def evaluate(case, link=False):
    import Reduino
    from Reduino.transpile.emitter import emit
    from Reduino.transpile.parser import parse

    src = case["src"]
    try:
        prog = parse(src)
        req = list(Reduino._collect_required_libraries(prog))
        cpp = emit(prog)
        # the same parsed program asked again (target() may emit before it collects): emitting is not allowed to change what is asked for
        req_after = list(Reduino._collect_required_libraries(prog))
        cpp_again = emit(prog)
    except ValueError as e:
        return "rejected", []
    fails = []

    def bad(b, e, o):
        fails.append({"bucket": b, "case": case, "expected": str(e), "observed": str(o)})

    if sorted(req_after) != sorted(req):
        bad("lib_deps-change-after-emit", sorted(req), sorted(req_after))
    if cpp_again != cpp:
        bad("second-emit-differs", "the same sketch for the same parsed program", "headers " + str(INCLUDE.findall(strip_literals(cpp_again))))
    bare = strip_literals(cpp)
    headers = INCLUDE.findall(bare)
    inc = [HEADER_TO_LIB[h] for h in headers if h in HEADER_TO_LIB]
    objs = sorted({m.group(1) for m in GLOBAL_OBJ.finditer(bare)})
    expect = sorted(case["expect"])
    if len(req) != len(set(req)):
        bad("lib-requested-twice", "each library once", req)
    if len(headers) != len(set(headers)):
        bad("header-included-twice", "each header once", headers)
    if sorted(set(req)) != expect:
        bad("lib_deps-vs-declared-devices", expect, req)
    if sorted(set(inc)) != expect:
        bad("includes-vs-declared-devices", expect, headers)
    if objs != expect:
        bad("instantiated-classes-vs-declared-devices", expect, objs)
    # the request as PlatformIO sees it: lib_deps of the project file written for exactly these libraries
    import configparser
    import pathlib

    from Reduino.toolchain.pio import write_project

    with fb.Workdir("c14p") as pd:
        try:
            if case.get("prev_libs") is not None:
                write_project(pathlib.Path(pd), "// earlier version\n", "COM9", lib_deps=case["prev_libs"])
            kw = {"platform": case["pair"][0], "board": case["pair"][1]} if case.get("pair") else {}
            write_project(pathlib.Path(pd), cpp, "COM3", lib_deps=req, **kw)
            cp = configparser.ConfigParser(interpolation=None)
            cp.read(str(pathlib.Path(pd) / "platformio.ini"), encoding="utf-8")
            ini_libs = [ln.strip() for sec in cp.sections() for ln in cp[sec].get("lib_deps", "").splitlines() if ln.strip()]
        except Exception as e:  # noqa: BLE001 - reported as a failure of this link of the chain
            ini_libs = [f"<{type(e).__name__}: {e}>"]
    if len(ini_libs) != len(set(ini_libs)):
        bad("ini-lib-listed-twice", "each library once in platformio.ini", ini_libs)
    if sorted(set(ini_libs)) != expect:
        bad("ini-lib_deps-vs-declared-devices", expect, ini_libs)
    if ("LiquidCrystal_I2C.h" in headers) != ("Wire.h" in headers):
        bad("wire-header", "Wire.h iff LiquidCrystal_I2C.h", headers)
    if link and not fails:
        with fb.Workdir("c14") as wd:
            try:
                fb.build(cpp, wd)
            except fb.CompileError as e:
                bad("does-not-link", "sketch links against the mock library headers", str(e)[:300])
    return "ok", fails


def plan(tier):
    n = 60 if tier == "quick" else 1500
    return [(f"gen-{i}", {"n": n}) for i in range(16)]


def run_shard(name, seed, tier, n):
    r = Result()
    last = {}
    k = [0]

    @hseed(seed)
    @hyp_settings(n)
    @given(script())
    def prop(case):
        k[0] += 1
        status, fails = evaluate(case, link=(zlib.crc32(case["src"].encode()) % 3 == 0))   # a function of the case: the same verdict when Hypothesis replays it
        r.count("status:" + status)
        r.count("libs:" + "+".join(case["expect"]) if case["expect"] else "libs:none")
        r.case(case if len(r.samples) < 1 else {"h": hash(case["src"]) & 0xffffffff}, status == "ok" and (bool(case["expect"]) or case["decoys"] > 0))
        if fails:
            for fl in fails:
                last[fl["bucket"]] = fl
            raise AssertionError(fails[0]["bucket"])

    try:
        prop()
    except AssertionError:
        pass
    except Exception:
        if not last:   # not one of ours: a harness error
            raise
    r.failures = list(last.values())
    return r


def replay(case):
    return evaluate(case, link=True)[1]
