"""C17 - LCD text: same characters in the same cells on device and host, never off-row.

Histories of LCD operations (op lists) on generated geometries (cols 1-40, rows 1-4, parallel with/without rw and
backlight pin, I2C).  After every operation the mock display's visible cell matrix (dumped on a marker) must equal the
host LCD's buffer; the mock flags any write outside the visible window.  Progress bars, backlight and glyphs are
checked against the rules of the statement.
"""
from __future__ import annotations

from hypothesis import Phase, given, seed as hseed, strategies as st

from vlib import fwbuild as fb, hostexec as hx
from vlib.runner import Result, hyp_settings

ID = "C17"
LEVEL = "translation_validation"
RULE = (
    "Hypothesis draws a geometry (cols 1-40 incl. 1, 8, 16, 20, 40; rows 1-4; parallel with/without rw and backlight_pin, or I2C) and 3-18 operations: write(col,row,"
    "text, clear_row, align), line(row, text, align, clear_row), message(top, bottom, aligns, clear_rows), clear(), progress(row, value, max, width in 1..cols+3 or "
    "None, style, label) incl. increasing value runs, display/backlight/brightness (single and in runs of 3-5 that repeat the present state), glyph(slot, 8 rows) incl. runs that alternate a pool of 2-3 bitmaps on 1-2 slots; texts are printable ASCII of length 0, < space, = space, > space "
    "and > cols, given as literals or as run-time Strings read from the serial tape. After every operation both sides dump the display. Oracle: cell-for-cell "
    "equality with host LCD.dump() (rows touched by a progress bar whose value*width is not a multiple of max may differ by one fill cell), no out-of-window write "
    "on the device, host rows keep length cols, progress fill monotone and saturating, backlight pin level == (on ? brightness : 0) on the device and in the host model's state, createChar bytes == host "
    "glyphs. Non-trivial = text >= available space, non-left alignment, clear_row=False over content, or a progress value off a cell boundary. distinct = distinct history."
)
ASSUMPTIONS = ["non-ASCII text and out-of-range row/col are outside the generated domain", "mock LiquidCrystal models the visible cols x rows window only (no DDRAM wrap-around)"]

HEAD = "from Reduino.Communication import SerialMonitor\nfrom Reduino.Displays import LCD\nmon = SerialMonitor(9600)\n"
FILL = {"block": "█", "hash": "#", "pipe": "|", "dot": "."}
TEXT_ALPHA = "abcdefghijklmnopqrstuvwxyzABCXYZ0123456789 .,:;!?+-*/=()[]<>#%&'\"_|"


@st.composite
def history(draw):
    cols = draw(st.sampled_from([1, 2, 5, 8, 16, 16, 20, 40]) | st.integers(1, 40))
    rows = draw(st.integers(1, 4))
    wiring = draw(st.sampled_from(["par", "par_rw", "par_bl", "par_rw_bl", "i2c"]))
    if wiring == "i2c":
        decl = f"lcd = LCD(i2c_addr=0x27, cols={cols}, rows={rows})"
    else:
        decl = "lcd = LCD(rs=22, en=23, d4=24, d5=25, d6=26, d7=27" + (", rw=28" if "rw" in wiring else "") + (", backlight_pin=44" if "bl" in wiring else "") + f", cols={cols}, rows={rows})"
    lines = [HEAD.rstrip("\n"), decl]
    serial = []
    ops = []
    nt = [0]
    k = [0]
    pool, slots, glyph_runs = [], [], [0]
    power_runs = [0]
    rt_flags = [0]

    def text(space):
        cls = draw(st.sampled_from(["empty", "short", "exact", "over", "long"]))
        n = {"empty": 0, "short": max(0, space - draw(st.integers(1, max(1, space)))), "exact": max(space, 0), "over": max(space, 0) + draw(st.integers(1, 3)), "long": cols + draw(st.integers(1, 5))}[cls]
        s = draw(st.text(alphabet=TEXT_ALPHA, min_size=n, max_size=n))
        if n >= max(space, 1):
            nt[0] += 1
        if draw(st.integers(0, 3)) == 0:
            s = s.strip() if s.strip() else s.replace(" ", "x")  # the serial tape cannot carry leading/trailing blanks faithfully
            k[0] += 1
            v = f"t{k[0]}"
            lines.append(f"{v} = mon.read()")
            serial.append(s)
            return v
        return repr(s)

    def flag():
        # on/off argument: a literal, or (one in three) a run-time value computed from a String read off the serial tape
        b = draw(st.booleans())
        if draw(st.integers(0, 2)) != 0:
            return str(b)
        s = draw(st.text(alphabet="abcxyz", min_size=1, max_size=6))
        k[0] += 1
        v = f"t{k[0]}"
        lines.append(f"{v} = mon.read()")
        serial.append(s)
        rt_flags[0] += 1
        n = len(s)
        return f"len({v}) > {n - 1}" if b else f"len({v}) > {n}"

    def align():
        a = draw(st.sampled_from(["left", "left", "center", "right"]))
        if a != "left":
            nt[0] += 1
        # alignment names are documented as case-insensitive: any spelling means the same on both sides
        sp = draw(st.integers(0, 5))
        return {0: a.upper(), 1: a.capitalize(), 2: a[0] + a[1:].upper()}.get(sp, a)

    for j in range(draw(st.integers(3, 18))):
        o = draw(st.sampled_from(["write", "write", "line", "line", "message", "clear", "progress", "progress_run", "display", "backlight", "brightness", "power_run", "glyph", "glyph_run"]))
        r = draw(st.integers(0, rows - 1))
        if o == "write":
            c = draw(st.integers(0, cols - 1))
            cr = draw(st.booleans())
            if not cr:
                nt[0] += 1
            kw = (f", clear_row={cr}" if draw(st.booleans()) or not cr else "") + (f", align={align()!r}" if draw(st.booleans()) else "")
            lines.append(f"lcd.write({c}, {r}, {text(cols - c)}{kw})")
            ops.append({"op": "write", "row": r, "full": cr})
        elif o == "line":
            cr = draw(st.booleans())
            if not cr:
                nt[0] += 1
            kw = (f", align={align()!r}" if draw(st.booleans()) else "") + (f", clear_row={cr}" if draw(st.booleans()) or not cr else "")
            lines.append(f"lcd.line({r}, {text(cols)}{kw})")
            ops.append({"op": "line", "row": r, "full": cr})
        elif o == "message":
            form = draw(st.sampled_from(["both", "top", "bottom_kw", "aligned"]))
            rewritten = []
            if form == "both":
                lines.append(f"lcd.message({text(cols)}, {text(cols)})")
                rewritten = [0, 1]
            elif form == "top":
                lines.append(f"lcd.message({text(cols)})")
                rewritten = [0]
            elif form == "bottom_kw":
                lines.append(f"lcd.message(bottom={text(cols)})")
                rewritten = [1]
            else:
                clr = draw(st.booleans())
                lines.append(f"lcd.message({text(cols)}, {text(cols)}, top_align={align()!r}, bottom_align={align()!r}, clear_rows={clr})")
                rewritten = [0, 1] if clr else []
            ops.append({"op": "message", "row": None, "full": True, "rewritten": rewritten})
        elif o == "clear":
            lines.append("lcd.clear()")
            ops.append({"op": "clear", "row": None, "full": True})
        elif o in ("progress", "progress_run"):
            mx = draw(st.sampled_from([1, 3, 7, 10, 100, 255]))
            width = draw(st.sampled_from([None, None, 1, cols, cols + 3]) | st.integers(1, cols + 3))
            style = draw(st.sampled_from(["block", "hash", "pipe", "dot"]))
            label = draw(st.sampled_from([None, None, "L", "Vol", "a b"]))
            vals = [draw(st.integers(-5, mx + 5))] if o == "progress" else sorted(draw(st.lists(st.integers(-2, mx + 2), min_size=3, max_size=4)))
            for v in vals:
                kw = (f", width={width}" if width is not None else "") + (f", style={style!r}" if style != "block" or draw(st.booleans()) else "") + (f", label={label!r}" if label else "")
                lines.append(f"lcd.progress({r}, {v}, {mx}{kw})")
                w = cols if width is None else max(1, min(cols, width))
                exact = (max(0, min(v, mx)) * w) % mx == 0
                if not exact:
                    nt[0] += 1
                ops.append({"op": "progress", "row": r, "full": True, "v": v, "max": mx, "w": w, "style": style, "label": label, "exact": exact, "run": o == "progress_run"})
                lines.append("mon.write('@@DUMP')")
            continue
        elif o == "power_run":
            # display power, backlight and brightness interleaved, incl. calls that repeat the present state: the backlight pin follows every one of them
            for _ in range(draw(st.integers(3, 5))):
                what = draw(st.sampled_from(["display", "display", "backlight", "backlight", "brightness"]))
                if what == "brightness":
                    if "bl" not in wiring:
                        continue
                    lines.append(f"lcd.brightness({draw(st.sampled_from([0, 1, 77, 128, 255]))})")
                else:
                    lines.append(f"lcd.{what}({flag()})")
                ops.append({"op": what, "row": None, "full": False})
                lines.append("mon.write('@@DUMP')")
            power_runs[0] += 1
            continue
        elif o in ("display", "backlight"):
            lines.append(f"lcd.{o}({flag()})")
            ops.append({"op": o, "row": None, "full": False})
        elif o == "brightness":
            if "bl" not in wiring:
                continue
            lines.append(f"lcd.brightness({draw(st.sampled_from([0, 1, 128, 254, 255]) | st.integers(0, 255))})")
            ops.append({"op": "brightness", "row": None, "full": False})
        elif o == "glyph_run":
            # a short animation on one or two slots out of a pool of two or three bitmaps: the same (slot, bitmap) pair recurs after another upload
            if not pool:
                pool.extend([draw(st.integers(0, 255)) for _ in range(8)] for _ in range(draw(st.integers(2, 3))))
                slots.extend(draw(st.lists(st.integers(0, 7), min_size=1, max_size=2, unique=True)))
            for _ in range(draw(st.integers(2, 4))):
                lines.append(f"lcd.glyph({draw(st.sampled_from(slots))}, {draw(st.sampled_from(pool))!r})")
                ops.append({"op": "glyph", "row": None, "full": False})
                lines.append("mon.write('@@DUMP')")
            glyph_runs[0] += 1
            continue
        else:
            rowsv = [draw(st.integers(0, 255)) for _ in range(8)]
            lines.append(f"lcd.glyph({draw(st.integers(0, 7))}, {rowsv!r})")
            ops.append({"op": "glyph", "row": None, "full": False})
        lines.append("mon.write('@@DUMP')")
    return {"src": "\n".join(lines) + "\n", "ops": ops, "serial": serial, "cols": cols, "rows": rows, "wiring": wiring, "nt": nt[0] > 0 or glyph_runs[0] > 0 or power_runs[0] > 0}


def fw_dumps(trace):
    """Per marker: rows of the (single) LCD, backlight pin level, glyph / out-of-window events since the previous marker."""
    out = []
    level = None
    glyphs, oob = [], []
    cur = None
    for t, k, a in trace.events:
        p = a.split()
        if k == "SER" and a.startswith("@@DUMP"):
            cur = {"rows": {}, "level": level, "glyphs": glyphs, "oob": oob}
            out.append(cur)
            glyphs, oob = [], []
        elif k == "LCD_ROW" and cur is not None:
            cur["rows"][int(p[1])] = bytes.fromhex(p[2]).decode("latin-1").replace("\xff", FILL["block"]) if len(p) > 2 else ""
        elif k == "AW" and int(p[0]) == 44:
            level = int(p[1])
        elif k == "LCD_GLYPH":
            glyphs.append((int(p[1]), [int(x) for x in p[2:10]]))
        elif k in ("LCD_OOB", "LCD_USE_BEFORE_BEGIN"):
            oob.append(f"{k} {a}")
    return out


def evaluate(case):
    src = case["src"]
    mk = lambda b, e, o: {"bucket": b, "case": case, "expected": str(e), "observed": str(o)}
    try:
        cpp = fb.transpile(src)
    except ValueError as e:
        return "rejected:" + str(e)[:50], []
    tape = {"serial": case["serial"]}
    host = hx.run_host(src, 0, tape, {"instrument": False})
    if "error" in host:
        return "not-well-defined:" + host["error"][:50], []
    with fb.Workdir("c17") as wd:
        try:
            exe = fb.build(cpp, wd)
        except fb.CompileError as e:
            return "FAIL", [mk("compile-error", "compiles", str(e)[:300])]
        trace = fb.run(exe, 0, fb.make_tape(serial=case["serial"]), wd)
    if trace.status != "ok":
        return "FAIL", [mk("firmware-" + trace.status, "runs", trace.stderr[-200:])]
    fdumps = fw_dumps(trace)
    hd = [e for e in host["events"] if e[1] in ("LCD", "GLYPH")]
    hdumps = []
    g = []
    for e in host["events"]:
        if e[1] == "GLYPH":
            g.append((e[3], list(e[4])))
        elif e[1] == "LCD":
            hdumps.append({"rows": e[3], "glyphs": g, "level": e[4] if len(e) > 4 else None})
            g = []
    ops = case["ops"]
    if len(fdumps) != len(ops) or len(hdumps) != len(ops):
        return "FAIL", [mk("dump-count", f"{len(ops)} dumps", f"fw {len(fdumps)} host {len(hdumps)}")]
    cols, rows = case["cols"], case["rows"]
    tolerated = set()
    bl_on, bright = True, 255
    prev_fill = {}
    for i, (op, fd, hdm) in enumerate(zip(ops, fdumps, hdumps)):
        if fd["oob"]:
            return "FAIL", [mk("device-writes-off-row", "no write outside the visible window", f"op {i} {op['op']}: {fd['oob'][0]}")]
        hrows = hdm["rows"]
        if len(hrows) != rows or any(len(r) != cols for r in hrows):
            return "FAIL", [mk("host-row-length", f"{rows} rows of {cols}", [len(r) for r in hrows])]
        # rows rewritten completely by this op stop being tolerated
        if op["op"] in ("clear", "message") or (op["row"] is not None and op["full"]):
            if op["op"] in ("clear",):
                tolerated.clear()
            elif op["op"] == "message":
                for rr in op.get("rewritten", []):
                    tolerated.discard(rr)
            else:
                tolerated.discard(op["row"])
        if op["op"] == "progress":
            r = op["row"]
            fill = FILL[op["style"]]
            lab = (op["label"] + " ") if op["label"] else ""
            frow, hrow = fd["rows"].get(r, ""), hrows[r]
            seg_f = frow[len(lab): len(lab) + op["w"]]
            seg_h = hrow[len(lab): len(lab) + op["w"]]
            nf = len(seg_f) - len(seg_f.lstrip(fill))
            nh = len(seg_h) - len(seg_h.lstrip(fill))
            vis = min(op["w"], max(0, cols - len(lab)))
            for side, nn, seg in (("device", nf, seg_f), ("host", nh, seg_h)):
                if op["v"] <= 0 and nn != 0:
                    return "FAIL", [mk("progress-not-zero-at-zero", f"{side}: 0 filled cells for value {op['v']}", nn)]
                if op["v"] >= op["max"] and nn != vis:
                    return "FAIL", [mk("progress-not-saturated", f"{side}: {vis} filled cells for value {op['v']}/{op['max']}", nn)]
            if op["exact"] and frow != hrow:
                return "FAIL", [mk("progress-differs-on-cell-boundary", repr(hrow), repr(frow))]
            if abs(nf - nh) > 1 and vis == op["w"]:
                return "FAIL", [mk("progress-differs-by-more-than-one-cell", f"host {nh} filled", f"device {nf} filled")]
            key = (r, op["max"], op["w"], op["style"], op["label"])
            if op["run"] and key in prev_fill and prev_fill[key][0] <= op["v"]:
                if nf < prev_fill[key][1]:
                    return "FAIL", [mk("progress-not-monotone", f"device fill >= {prev_fill[key][1]} for value {op['v']}", nf)]
                if nh < prev_fill[key][2]:
                    return "FAIL", [mk("progress-not-monotone-host", f"host fill >= {prev_fill[key][2]}", nh)]
            prev_fill[key] = (op["v"], nf, nh)
            if frow != hrow:
                tolerated.add(r)
        for r in range(rows):
            if r in tolerated:
                continue
            if fd["rows"].get(r) != hrows[r]:
                return "FAIL", [mk(f"cells-differ:{op['op']}", f"row {r}: {hrows[r]!r}", f"row {r}: {fd['rows'].get(r)!r} after op {i} ({op['op']})")]
        if fd["glyphs"] != [(s, v) for s, v in hdm["glyphs"]]:
            return "FAIL", [mk("glyph-bytes", hdm["glyphs"], fd["glyphs"])]
    # backlight pin level (parallel + backlight pin): replay host state
    if "bl" in case["wiring"]:
        lvl = [fd["level"] for fd in fdumps]
        st_on, st_b = True, 255
        import re
        calls = [ln for ln in src.split("\n") if ln.startswith("lcd.") and not ln.startswith("lcd = ")]
        j = 0
        for ln in calls:
            m = re.match(r"lcd\.(display|backlight|brightness)\((.*)\)", ln)
            if m:
                if m.group(1) == "brightness":
                    st_b = max(0, min(255, int(m.group(2))))
                else:
                    reads = [l.split(" = ")[0] for l in src.split("\n") if l.endswith(" = mon.read()")]
                    st_on = bool(eval(m.group(2), {"len": len, "__builtins__": {}}, dict(zip(reads, case["serial"]))))
            want = st_b if st_on else 0
            if lvl[j] is not None and lvl[j] != want:
                return "FAIL", [mk("backlight-pin-level", f"after `{ln}`: pin 44 at {want}", lvl[j])]
            if j < len(hdumps) and hdumps[j].get("level") is not None and hdumps[j]["level"] != want:
                return "FAIL", [mk("host-backlight-state", f"after `{ln}`: host model reports backlight {want} (brightness if on else 0)", hdumps[j]["level"])]
            j += 1
    return "ok", []


def plan(tier):
    q = tier == "quick"
    return [(f"gen-{i}", {"n": 25 if q else 400}) for i in range(16)]


def run_shard(name, seed, tier, n):
    r = Result()
    found = {}

    @hseed(seed)
    @hyp_settings(n, phases=(Phase.generate,))
    @given(history())
    def prop(case):
        status, fails = evaluate(case)
        r.count("status:" + status.split(":")[0])
        if status.startswith(("rejected", "not-well")):
            r.count(status)
        r.count(f"geometry:{case['cols']}x{case['rows']}:{case['wiring']}" if len(r.counters) < 60 else "geometry:other")
        r.case({"src": case["src"], "serial": case["serial"]} if len(r.samples) < 1 else {"h": hash(case["src"]) & 0xffffffff}, status == "ok" and case["nt"])
        for fl in fails:
            if fl["bucket"] not in found or len(case["src"]) < len(found[fl["bucket"]]["case"]["src"]):
                found[fl["bucket"]] = fl

    prop()
    r.failures = list(found.values())
    return r


def replay(case):
    return evaluate(case)[1][:1]
