"""C15 - inputs: button edges, potentiometer reads and ultrasonic ranging behave as documented.

Generated sketches (buttons with/without on_click, is_pressed() in prints/conditions/helpers, pots, ultrasonic
sensors read 0-3 times per pass incl. back-to-back, sleeps) are compiled once and run against many generated tapes
(button level sequences, ADC values, echo durations with timeout runs, per-pass clock jitter, clock start at 0, >0 or
just before the 32-bit millis() wrap).  Reference models written from the statement are evaluated on the trace.
"""
from __future__ import annotations

import math

from hypothesis import Phase, given, seed as hseed, strategies as st

from vlib import fwbuild as fb
from vlib.runner import HarnessError, Result, hyp_settings

ID = "C15"
LEVEL = "exploration"
RULE = (
    "Hypothesis draws a sketch (1-3 buttons on distinct pins with/without on_click, declared in the prologue; is_pressed() printed 0-3 times per pass, "
    "inside conditions and through a helper; 0-2 potentiometers read 0-3 times per pass; 0-2 ultrasonic sensors measured 0-3 times per pass incl. "
    "back-to-back; sleeps 0-100 ms) and, per sketch, 6 (quick) / 25 (thorough) tapes: button level sequences (held, bouncing, starting pressed or released), "
    "ADC values 0-1023, echo durations with runs of 1-5 timeouts, per-pass jitter 0-200 ms, clock starting at 0 ms, 1 ms, 59 ms or 5 s; "
    "N = 4-10 passes. Models: one digitalRead per button per pass (+1 initial sample in setup), on_click exactly on released->pressed transitions of the "
    "sampled signal, every is_pressed() equals the pass's sample, click count equals the host Button's (driven by a provider, by set_pressed before every poll, and by set_pressed with unobserved level changes between polls) for signals that start released; one analogRead per "
    "pot.read() returning that value; distance = echo*0.0343/2 of the first non-zero echo, <=3 trigger pulses per call, fallback to the last good reading / "
    "400, >=60 ms between triggers once millis() is non-zero. Non-trivial = tape with >=2 rising edges and a held stretch, or a timeout followed by a good "
    "echo, or two measurements < 60 ms apart. distinct = distinct (sketch, tape)."
)
ASSUMPTIONS = ["millis() rollover is exercised on a second build of the same sketch in which `unsigned long` is textually rendered as uint32_t (its width on the AVR targets); int stays 32-bit", "electrical bounce and pulseIn timing accuracy are not modelled; the virtual clock advances only through delay()/pulseIn()/jitter",
               "buttons declared at the top of the main-loop body are excluded by construction (open finding: no initial sample in setup)"]

HEAD = ("from Reduino.Communication import SerialMonitor\nfrom Reduino.Sensors import Button, Potentiometer, Ultrasonic\nfrom Reduino.Utils import sleep\n")
BTN_PINS = [7, 38, 39]
POT_PINS = [("A2", 16), ("A3", 17)]
US_PINS = [(40, 41), (42, 43)]


@st.composite
def sketch(draw, loop_button=False):
    nb = draw(st.integers(1, 3))
    npot = draw(st.integers(0, 2))
    nus = draw(st.integers(0, 2))
    lines = [HEAD.rstrip("\n")]
    cb = {}
    for i in range(nb):
        if draw(st.booleans()):
            cb[i] = True
            lines += [f"def click{i}():", f"    mon.write('@click{i}')"]
    lines.append("mon = SerialMonitor(9600)")
    decl_loop = []
    # two Button objects may watch the same pin (e.g. one with a handler, one polled): each keeps its own edge memory
    bpins = [BTN_PINS[i] for i in range(nb)]
    if nb >= 2 and not loop_button and draw(st.integers(0, 3)) == 0:
        j = draw(st.integers(1, nb - 1))
        bpins[j] = bpins[draw(st.integers(0, j - 1))]
    for i in range(nb):
        d = f"btn{i} = Button({bpins[i]}" + (f", on_click=click{i})" if i in cb else ")")
        if loop_button and i == 0:
            decl_loop.append(d)
        else:
            lines.append(d)
    ppins = [POT_PINS[i][1] for i in range(npot)]
    for i in range(npot):
        lines.append(f"pot{i} = Potentiometer('{POT_PINS[i][0]}')")
    if npot == 1 and draw(st.integers(0, 2)) == 0:
        # the name is re-bound to another analogue pin before the main loop: later reads sample the pin of the latest declaration
        lines += ["mon.write('p0:' + str(pot0.read()))"] if draw(st.booleans()) else []
        lines.append(f"pot0 = Potentiometer('{POT_PINS[1][0]}')")
        ppins[0] = POT_PINS[1][1]
    for i in range(nus):
        lines.append(f"us{i} = Ultrasonic({US_PINS[i][0]}, {US_PINS[i][1]})")
    use_helper = draw(st.booleans())
    if use_helper:
        lines[1:1] = []
        lines += ["def chk():", "    return btn0.is_pressed()"] if not loop_button else []
        use_helper = not loop_button
    body = list(decl_loop)
    for _ in range(draw(st.integers(1, 7))):
        k = draw(st.sampled_from(["btn", "btn", "btn_if", "btn_while", "pot", "pot_pair", "us", "us2", "sleep", "helper"]))
        if k == "btn":
            i = draw(st.integers(0, nb - 1))
            body.append(f"mon.write('b{i}:' + str(btn{i}.is_pressed()))")
        elif k == "btn_if":
            i = draw(st.integers(0, nb - 1))
            body += [f"if btn{i}.is_pressed() == 1:", f"    mon.write('b{i}:1')", "else:", f"    mon.write('b{i}:0')"]
        elif k == "btn_while":
            # a loop whose condition asks the button again: still this pass's one sample (the body leaves the loop itself)
            i = draw(st.integers(0, nb - 1))
            body += [f"while btn{i}.is_pressed() == 1:", f"    mon.write('b{i}:1')", "    break", f"if btn{i}.is_pressed() == 1:", f"    while btn{i}.is_pressed():", f"        mon.write('b{i}:1')", "        break"]
        elif k == "helper" and use_helper:
            body.append("mon.write('b0:' + str(chk()))")
        elif k == "pot" and npot:
            i = draw(st.integers(0, npot - 1))
            body.append(f"mon.write('p{i}:' + str(pot{i}.read()))")
        elif k == "pot_pair" and npot:
            # the same read expression twice in one statement (tuple assignment, list literal, sum): two calls are two samples
            i = draw(st.integers(0, npot - 1))
            j = draw(st.integers(0, npot - 1))
            form = draw(st.sampled_from(["tuple", "tuple", "two_stmts"]))   # (a list literal of two reads is the open finding KF-C01-list-literal-element-order)
            if form == "tuple":
                body += [f"ra, rb = pot{i}.read(), pot{j}.read()", f"mon.write('p{i}:' + str(ra))", f"mon.write('p{j}:' + str(rb))"]
            else:
                body += [f"ra = pot{i}.read()", f"rb = pot{j}.read()", f"mon.write('p{i}:' + str(ra))", f"mon.write('p{j}:' + str(rb))"]
        elif k in ("us", "us2") and nus:
            i = draw(st.integers(0, nus - 1))
            body.append(f"mon.write('u{i}:' + str(us{i}.measure_distance()))")
            if k == "us2":
                body.append(f"mon.write('u{i}:' + str(us{i}.measure_distance()))")
        elif k == "sleep":
            body.append(f"sleep({draw(st.sampled_from([0, 1, 10, 30, 59, 60, 61, 100]))})")
    if not body:
        body = ["sleep(1)"]
    lines += ["while True:"] + ["    " + b for b in body]
    return {"src": "\n".join(lines) + "\n", "nb": nb, "npot": npot, "nus": nus, "cb": sorted(cb), "loop_button": loop_button, "bpins": bpins, "ppins": ppins}


@st.composite
def tape(draw, n):
    """One integer is drawn; the (long) tapes are expanded from it with a private PRNG, so a case stays a pure function of the draws
    without exhausting Hypothesis' entropy budget (30 tapes x 3 pins x 3(n+1) levels in the thorough tier)."""
    import random

    rnd = random.Random(draw(st.integers(0, 2**32 - 1)))
    levels = {}
    m = 3 * (n + 1)  # a pin shared by several Button objects is read once per button and pass
    for p in BTN_PINS:
        style = rnd.choice(["random", "held", "bounce", "press_release", "start_pressed", "all_low"])
        if style == "random":
            seq = [rnd.randint(0, 1) for _ in range(m + 1)]
        elif style == "held":
            seq = [0] + [1] * m
        elif style == "bounce":
            seq = [(i % 2) for i in range(m + 1)]
        elif style == "press_release":
            seq = [0, 1, 1, 0, 0, 1, 0, 1, 1, 1, 0, 1][: m + 1] + [0] * max(0, m - 11)
        elif style == "start_pressed":
            seq = [1] + [rnd.randint(0, 1) for _ in range(m)]
        else:
            seq = [0] * (m + 1)
        levels[p] = seq
    analog = {p: [rnd.choice([0, 1, 511, 512, 1022, 1023, rnd.randint(0, 1023), rnd.randint(0, 1023)]) for _ in range(3 * n)] for _, p in POT_PINS}
    pulse = {}
    for _, e in US_PINS:
        seq = []
        while len(seq) < 9 * n + 3:
            if rnd.randint(0, 2) == 0:
                seq += [0] * rnd.randint(1, 5)
            seq.append(rnd.choice([58, 583, 1166, 5830, 23323, 29999, 30000, 40000, 150]))
        pulse[e] = seq
    jitter = [rnd.choice([0, 0, 1, 30, 59, 60, 200]) for _ in range(n)]
    t0 = rnd.choice([0, 0, 5_000_000, 1_000, 59_000])
    if rnd.randint(0, 2) == 0:
        # shortly before the 32-bit millis() wrap (49.7 days of up-time): these tapes run on the build whose `unsigned long` is 32 bits wide
        t0 = (2**32 - rnd.choice([1, 30, 59, 60, 61, 100, 150, 200, 400, 1000])) * 1000
    return {"digital": levels, "analog": analog, "pulse": pulse, "jitter": jitter, "t0_us": t0}


def host_clicks(seq, mode="provider"):
    """clicks of the host Button per sample. mode: the signal comes from a provider, from set_pressed(level) right before every poll,
    or from set_pressed with an unobserved opposite level set and withdrawn between two polls ("glitch": not part of the sampled signal)."""
    from Reduino.Sensors import Button

    clicks = []
    it = iter(seq)
    if mode == "provider":
        b = Button(1, on_click=lambda: clicks.append(1), state_provider=lambda: bool(next(it)))
    else:
        b = Button(1, on_click=lambda: clicks.append(1))
    per = []
    for s in seq:
        if mode != "provider":
            if mode == "glitch":
                b.set_pressed(not s)
            b.set_pressed(bool(s))
        n0 = len(clicks)
        b.is_pressed()
        per.append(len(clicks) - n0)
    return per


def model_check(sk, tp, n, trace):
    """Evaluate the reference models on the firmware trace; returns list of (bucket, expected, observed)."""
    fails = []
    phases = []
    cur = None
    for t, k, a in trace.events:
        if k == "==":
            cur = {"name": a, "ev": []}
            phases.append(cur)
        elif cur is not None:
            cur["ev"].append((t, k, a))
    if [p["name"] for p in phases] != ["setup"] + [f"loop {i}" for i in range(n)] + ["end"]:
        return [("phase-structure", "setup + n passes", [p["name"] for p in phases])]
    setup, loops = phases[0]["ev"], [p["ev"] for p in phases[1:-1]]
    # ---------------- buttons
    bpins = sk.get("bpins") or [BTN_PINS[i] for i in range(sk["nb"])]
    for i in range(sk["nb"]):
        pin = bpins[i]
        sharers = [j for j in range(sk["nb"]) if bpins[j] == pin]   # buttons on this pin, in declaration (= polling) order
        slot, share = sharers.index(i), len(sharers)
        init_all = [int(a.split()[1]) for _, k, a in setup if k == "DR" and int(a.split()[0]) == pin]
        in_loop = sk["loop_button"] and i == 0
        if not in_loop and len(init_all) != share:
            fails.append(("button-initial-sample", f"one initial digitalRead({pin}) per button in setup()", len(init_all)))
        init = init_all[slot:slot + 1] if len(init_all) == share else init_all[:1]
        prev = init[0] if init else 0
        samples = []
        for kpass, ev in enumerate(loops):
            drs_all = [int(a.split()[1]) for _, k, a in ev if k == "DR" and int(a.split()[0]) == pin]
            if len(drs_all) != share:
                fails.append(("button-sampled-not-once-per-pass", f"pass {kpass}: exactly one digitalRead({pin}) per button ({share})", len(drs_all)))
                break
            drs = drs_all[slot:slot + 1]
            s = drs[0]
            samples.append(s)
            clicks = sum(1 for _, k, a in ev if k == "SER" and a == f"@click{i}")
            want = 1 if (i in sk["cb"] and s == 1 and prev == 0) else 0
            if kpass == 0 and not init:
                want = 0  # no earlier sample: a line that is already pressed is not a released->pressed transition ("never at start-up")
            if clicks != want:
                what = "held" if (s == 1 and prev == 1) else "release" if s == 0 else "start-up" if kpass == 0 and in_loop else "rising edge"
                fails.append(("button-on_click-count", f"pass {kpass}: {want} click(s) (prev={prev}, sample={s}: {what})", f"{clicks} click(s)"))
            for _, k, a in ev:
                if k == "SER" and a.startswith(f"b{i}:") and a != f"b{i}:{s}":
                    fails.append(("button-is_pressed-not-the-sample", f"pass {kpass}: is_pressed() == {s}", a))
            prev = s
        # host agreement for signals that start released
        if i in sk["cb"] and init and init[0] == 0 and len(samples) == len(loops):
            fw_clicks = [sum(1 for _, k, a in ev if k == "SER" and a == f"@click{i}") for ev in loops]
            for mode in ("provider", "set", "glitch"):
                hc = host_clicks(samples, mode)
                if fw_clicks != hc:
                    fails.append((f"button-clicks-differ-from-host:{mode}", hc, fw_clicks))
                    break
    # ---------------- potentiometers: every read is one analogRead whose value is printed
    for i in range(sk["npot"]):
        pin = (sk.get("ppins") or [p for _, p in POT_PINS])[i]
        for kpass, ev in enumerate(loops):
            pending = []   # samples taken and not yet printed, oldest first (a statement may take two before it prints them)
            for _, k, a in ev:
                if k == "AR" and int(a.split()[0]) == pin:
                    pending.append(int(a.split()[1]))
                    if len(pending) > 2:
                        fails.append(("pot-read-not-printed", "each read value is used by the statement that made it", f"pass {kpass}"))
                elif k == "SER" and a.startswith(f"p{i}:"):
                    got = a.split(":")[1]
                    if not pending:
                        fails.append(("pot-read-without-analogRead", f"pass {kpass}: a fresh analogRead({pin}) for every read()", f"printed {got} without a read"))
                    elif str(pending[0]) != got:
                        fails.append(("pot-value", pending[0], got))
                    pending = pending[1:]
            if pending:
                fails.append(("pot-read-not-printed", "each read value is used by the statement that made it", f"pass {kpass}: {len(pending)} sample(s) left"))
    # ---------------- ultrasonic
    for i in range(sk["nus"]):
        trig, echo = US_PINS[i]
        last_trigger_ms = 0
        last_good, has = 400.0, False
        call = []  # attempts of the current call: (trigger_time_us, pulsein_time_us, dur)
        trig_t = None
        allev = [e for ev in [setup] + loops for e in ev]
        for t, k, a in allev:
            p = a.split()
            if k == "DW" and int(p[0]) == trig and int(p[1]) == 1:
                trig_t = t
            elif k == "PULSEIN" and int(p[0]) == echo:
                dur = int(p[2])
                call.append((trig_t, t, dur))
            elif k == "SER" and a.startswith(f"u{i}:"):
                got = float(a.split(":")[1])
                if not call:
                    fails.append(("ultrasonic-no-trigger", "measure_distance() triggers the sensor", a))
                    continue
                if len(call) > 3:
                    fails.append(("ultrasonic-too-many-attempts", "<= 3 trigger pulses per call", len(call)))
                # spacing
                for (tt, pt, dur) in call:
                    if tt is None:
                        fails.append(("ultrasonic-pulsein-without-trigger", "trigger pulse before pulseIn", "none"))
                        continue
                    now_ms = (tt // 1000) & 0xffffffff
                    if last_trigger_ms != 0:
                        elapsed = (now_ms - last_trigger_ms) & 0xffffffff
                        if elapsed < 60:
                            fails.append(("ultrasonic-retriggered-within-60ms", ">= 60 ms since the previous trigger", f"{elapsed} ms"))
                    end_us = pt + (dur if dur > 0 else 30000)
                    last_trigger_ms = (end_us // 1000) & 0xffffffff
                durs = [d for _, _, d in call]
                good = next((d for d in durs if d > 0), None)
                if good is not None and durs.index(good) != len(durs) - 1:
                    fails.append(("ultrasonic-continued-after-echo", "stop at the first echo", durs))
                if good is None and len(durs) < 3:
                    fails.append(("ultrasonic-gave-up-early", "3 attempts before falling back", durs))
                if good is not None:
                    want = good * 0.0343 / 2.0
                    last_good, has = want, True
                else:
                    want = last_good if has else 400.0
                if abs(got - want) > 1e-3 * max(1.0, want):
                    fails.append(("ultrasonic-distance", f"{want:.4f} (echoes {durs})", got))
                call = []
                trig_t = None
    return fails


def nontrivial(sk, tp, n):
    for p in sorted(set(sk.get("bpins") or BTN_PINS[: sk["nb"]])):
        seq = tp["digital"][p]
        rising = sum(1 for a, b in zip(seq, seq[1:]) if a == 0 and b == 1)
        held = any(a == 1 and b == 1 for a, b in zip(seq, seq[1:]))
        if rising >= 2 and held:
            return True
    if sk["nus"]:
        for _, e in US_PINS[: sk["nus"]]:
            s = tp["pulse"][e][: 3 * n]
            if any(a == 0 and b > 0 for a, b in zip(s, s[1:])):
                return True
    return False


def run_one(exe, wd, sk, tp, n):
    tape_txt = fb.make_tape(t0_us=tp["t0_us"], jitter=tp["jitter"], digital={int(k): v for k, v in tp["digital"].items()},
                            analog={int(k): v for k, v in tp["analog"].items()}, pulse={int(k): v for k, v in tp["pulse"].items()})
    trace = fb.run(exe, n, tape_txt, wd)
    if trace.status != "ok":
        return [("firmware-" + trace.status, "runs to completion", trace.stderr[-200:])]
    return model_check(sk, tp, n, trace)


def evaluate(case):
    sk = case["sketch"]
    try:
        cpp = fb.transpile(sk["src"])
    except ValueError as e:
        return "rejected:" + str(e)[:40], []
    out = []
    with fb.Workdir("c15") as wd:
        try:
            exe = fb.build(cpp, wd)
        except fb.CompileError as e:
            return "FAIL", [{"bucket": "compile-error", "case": case, "expected": "compiles", "observed": str(e)[:300]}]
        exe32 = None
        for tp in case["tapes"]:
            use = exe
            if tp["t0_us"] >= 2**31 * 1000:
                if exe32 is None:
                    try:
                        exe32 = fb.build(fb.avr_ulong(cpp), wd, name="sketch32")
                    except fb.CompileError as e:
                        raise HarnessError("the 32-bit `unsigned long` rendering of the sketch does not compile: " + str(e)[:300])
                use = exe32
            fails = run_one(use, wd, sk, tp, case["n"])
            for b, e, o in fails[:1]:
                out.append({"bucket": b, "case": dict(case, tapes=[tp]), "expected": str(e), "observed": str(o)})
            if fails:
                break
    return ("FAIL" if out else "ok"), out


def plan(tier):
    q = tier == "quick"
    return [(f"gen-{i}", {"n": 12 if q else 120, "ntapes": 10 if q else 30}) for i in range(16)]


def run_shard(name, seed, tier, n, ntapes):
    r = Result()
    found = {}

    @hseed(seed)
    @hyp_settings(n, phases=(Phase.generate,))
    @given(st.data())
    def prop(data):
        sk = data.draw(sketch())
        npass = data.draw(st.integers(4, 10))
        tapes = [data.draw(tape(npass)) for _ in range(ntapes)]
        case = {"sketch": sk, "n": npass, "tapes": tapes}
        status, fails = evaluate(case)
        r.count("status:" + status.split(":")[0])
        for tp in tapes:
            r.case({"src": sk["src"], "n": npass, "tape": tp} if len(r.samples) < 1 else {"h": hash(sk["src"]) & 0xffffff, "t": hash(repr(tp)) & 0xffffff}, status == "ok" and nontrivial(sk, tp, npass))
        for fl in fails:
            if fl["bucket"] not in found or len(sk["src"]) < len(found[fl["bucket"]]["case"]["sketch"]["src"]):
                found[fl["bucket"]] = fl

    prop()
    r.failures = list(found.values())
    return r


def replay(case):
    # JSON turns pin keys into strings
    for tp in case["tapes"]:
        for k in ("digital", "analog", "pulse"):
            tp[k] = {int(p): v for p, v in tp[k].items()}
    return evaluate(case)[1][:1]
