"""C13 - board registry validation is exact; project files round-trip.

(a) exhaustive product over (registry + near-miss names)^2 against the set-membership oracle;
(b) Hypothesis-generated write_project calls read back with configparser / raw bytes.
"""
from __future__ import annotations

import configparser
import itertools
import os
import shutil
import tempfile

from hypothesis import given, seed as hseed, strategies as st

from vlib.runner import Result, hyp_settings

ID = "C13"
LEVEL = "exploration"
RULE = (
    "(a) every pair from (2 platforms + all registered boards + generated near-miss names)^2 is passed to "
    "validate_platform_board and compared with the oracle 'board in SUPPORTED_PLATFORMS[platform]' computed from "
    "the two frozensets; non-trivial = a pair involving a near-miss name or a board of the other platform. "
    "(b) Hypothesis draws (port, library list, source text, registered pair, directory state: fresh, foreign old files, or re-used after an earlier write_project call with a related source - other line endings, longer, shorter, BOM - and other libraries/port); "
    "write_project output is read back with configparser(interpolation=None) and byte comparison; non-trivial = "
    "library list with a duplicate/empty entry, or port/source containing INI-significant or non-ASCII characters. "
    "distinct = distinct case hash."
)
ASSUMPTIONS = [
    "PlatformIO's INI dialect is represented by Python's configparser (no inline comments, interpolation off)",
    "ports are printable text without line breaks and without leading/trailing whitespace (any INI reader trims values)",
    "library names are PlatformIO-style specifiers (no leading comment character, no line breaks)",
]


def _pio():
    from Reduino.toolchain import pio

    return pio


def near_misses(names):
    out = set()
    for n in names:
        out.update({n.upper(), n.lower(), n.swapcase(), n.capitalize(), " " + n, n + " ", n + "\n", n.replace("_", "-"),
                    n.replace("-", "_"), n[:-1], n[1:], n + "x", "x" + n, n + "0", n * 2, n.strip("0123456789")})
    out.update({"", " ", "arduino", "atmelsam", "espressif32", "None", "uno ", "Uno", "UNO", "un0", "nanoatmega328new",
                "atmel-avr", "atmel_avr", "AtmelAVR", "atmelavr ", "atmelmegaavr\t", "megaavr", "avr"})
    return out


def plan(tier):
    units = [("validate-exhaustive", {"part": i, "parts": 16}) for i in range(16)]
    n = 100 if tier == "quick" else 6500
    units += [(f"roundtrip-{i}", {"n": n}) for i in range(16)]
    units.append(("registry-partition", {}))
    return units


def _oracle(pio, platform, board):
    boards = {"atmelavr": pio.SUPPORTED_ATMELAVR_BOARDS, "atmelmegaavr": pio.SUPPORTED_ATMELMEGAAVR_BOARDS}
    return platform in boards and board in boards[platform]


def check_pair(pio, platform, board):
    first = _check_pair_once(pio, platform, board)
    if first is not None:
        return first
    # the verdict is a function of the pair, not of what was validated before: ask again
    again = _check_pair_once(pio, platform, board)
    if again is not None:
        again["bucket"] = "validate-verdict-changes-when-repeated:" + again["bucket"]
    return again


def _fresh(s):
    """an equal string that is a different object (as read from a file, argv or JSON): equality, not identity, is what counts"""
    return s.encode("utf-8", "surrogatepass").decode("utf-8", "surrogatepass") if isinstance(s, str) else s


def _check_pair_once(pio, platform, board):
    try:
        pio.validate_platform_board(_fresh(platform), _fresh(board))
        got = True
        err = None
    except ValueError:
        got = False
        err = None
    except Exception as e:  # wrong exception type
        got = None
        err = repr(e)
    want = _oracle(pio, platform, board)
    if got is None:
        return {"bucket": "validate-wrong-exception", "case": {"kind": "pair", "platform": platform, "board": board},
                "expected": "accept or ValueError", "observed": err}
    if got != want:
        return {"bucket": "validate-accepts-unregistered" if got else "validate-rejects-registered",
                "case": {"kind": "pair", "platform": platform, "board": board},
                "expected": f"accepted={want}", "observed": f"accepted={got}"}
    return None


def run_shard(name, seed, tier, **kw):
    pio = _pio()
    r = Result()
    if name == "registry-partition":
        a, m = set(pio.SUPPORTED_ATMELAVR_BOARDS), set(pio.SUPPORTED_ATMELMEGAAVR_BOARDS)
        case = {"kind": "partition"}
        r.case(case, True)
        if a & m:
            r.fail("registry-not-disjoint", case, "disjoint board sets", sorted(a & m)[:5])
        if set(pio.SUPPORTED_PLATFORMS) != {"atmelavr", "atmelmegaavr"}:
            r.count("platform_set_changed")
        for b in a | m:
            want = "atmelavr" if b in a else "atmelmegaavr"
            if pio.BOARD_TO_PLATFORM.get(b) != want:
                r.fail("board-map-inconsistent", {"kind": "pair", "platform": want, "board": b}, want,
                       pio.BOARD_TO_PLATFORM.get(b))
        if set(pio.BOARD_TO_PLATFORM) != a | m:
            r.fail("board-map-not-total", case, "keys == union of board sets", "differs")
        return r
    if name == "validate-exhaustive":
        boards = sorted(set(pio.SUPPORTED_ATMELAVR_BOARDS) | set(pio.SUPPORTED_ATMELMEGAAVR_BOARDS))
        plats = sorted(pio.SUPPORTED_PLATFORMS)
        reg = set(boards) | set(plats)
        names = sorted(reg | near_misses(plats) | near_misses(boards))
        mine = names[kw["part"]::kw["parts"]]
        for p in mine:
            for b in names:
                fl = check_pair(pio, p, b)
                nt = (p not in plats) or (b not in reg) or (b in reg and p in plats and not _oracle(pio, p, b))
                r.evaluations += 1
                if nt:
                    r.nontrivial_enum += 1
                if fl:
                    r.failures.append(fl)
        r.samples = [{"kind": "pair", "platform": mine[0], "board": names[1]}] if mine else []
        r.exhaustive = True
        r.count("names_in_domain", len(names) if kw["part"] == 0 else 0)
        return r
    # ---- round trip ----
    return roundtrip_shard(pio, seed, kw["n"])


SIG = set("%;#=[]:\"'\\")
port_st = st.text(
    alphabet=st.characters(min_codepoint=32, max_codepoint=0x2FFF, blacklist_categories=("Cs", "Cc", "Zl", "Zp", "Zs")) | st.just(" "),
    min_size=1, max_size=30,
).map(lambda s: s.strip()).filter(lambda s: s != "" and s == s.strip() and "\x85" not in s)
port_st = st.one_of(st.sampled_from(["/dev/ttyUSB0", "COM3", "com4", "Com12", "cOM7", "COM10", "com256", "\\\\.\\COM11", "/DEV/TTYusb0", "Tty.USBmodem1", "/dev/cu.usbmodem14101", "%(x)s", "${sys:x}", "a;b", "a #b", "[x]", "a=b", "x:y", '"q"', "é/ü"]), port_st)
libname_st = st.one_of(
    st.sampled_from(["Servo", "LiquidCrystal", "LiquidCrystal_I2C", "Wire", "adafruit/DHT sensor library@^1.4", "bblanchon/ArduinoJson @ ~6.21", "x=1", "a%b", "Lib;1", "a#b"]),
    st.text(alphabet="ABCabc019_-./@^~=<> %", min_size=1, max_size=16).map(lambda s: s.strip()).filter(lambda s: s and s[0] not in "=:"),
)
libs_st = st.one_of(st.none(), st.lists(st.one_of(st.just(""), libname_st), max_size=8))
source_st = st.one_of(
    st.text(max_size=200, alphabet=st.characters(blacklist_categories=("Cs",))),
    st.text(alphabet="ab \n\r\t{};#%é€𝔘\x00", max_size=300),
    st.sampled_from(["", "\r\n", "void setup(){}\r\nvoid loop(){}\r", "x" * 100_000, "\ufeff", "\ufeff// caf\u00e9\nvoid setup(){}\n", "a\ufeff", "\ufffe", " \n", "\n\n", "\x0c", "\u2028x"]),
    st.tuples(st.sampled_from(["\ufeff", "\ufeff\ufeff", " ", "\t", "\n", "\r\n", "\x00", "\u200b"]), st.text(alphabet="ab \n\r;{}", max_size=40), st.sampled_from(["", " ", "\n", "\r", "\ufeff", "\x1a"])).map("".join),
)


def _snapshot(root):
    snap = {}
    for d, dirs, files in os.walk(root):
        for f in files:
            p = os.path.join(d, f)
            with open(p, "rb") as fh:
                snap[os.path.relpath(p, root)] = fh.read()
        for dd in dirs:
            snap[os.path.relpath(os.path.join(d, dd), root) + "/"] = None
    return snap


VARIANTS = ["same", "crlf", "crlf", "cr", "longer", "shorter", "bom", "trailing_space"]


def source_variant(src, kind):
    if "\n" not in src:
        src_nl = src + "\n// x\n"
    else:
        src_nl = src
    return {"same": src, "crlf": src_nl.replace("\r\n", "\n").replace("\n", "\r\n"), "cr": src_nl.replace("\r\n", "\n").replace("\n", "\r"), "longer": src + src + "// tail\n",
            "shorter": src[: len(src) // 2], "bom": "\ufeff" + src, "trailing_space": src.replace("\n", " \n")}[kind]


def eval_roundtrip(pio, case):
    """Return list of failures for one write_project case."""
    from pathlib import Path

    fails = []
    base = tempfile.mkdtemp(prefix="c13-", dir=os.environ.get("VERIF_WORK"))
    try:
        outer = Path(base) / "outer"
        outer.mkdir()
        (outer / "sibling.txt").write_text("keep")
        (outer / "sib").mkdir()
        (outer / "sib" / "platformio.ini").write_text("[env:other]\n")
        proj = outer / "proj" if case["nested"] == 0 else outer / "a" / "b" / "proj"
        if case["pre"] >= 1:
            (proj / "src").mkdir(parents=True)
            (proj / "src" / "main.cpp").write_text("OLD CONTENT THAT IS LONGER THAN NEW" * 3)
            (proj / "platformio.ini").write_text("[env:old]\nboard = old\nlib_deps =\n  Old\n" * 3)
            (proj / "other.txt").write_text("user file")
        if case["pre"] == 2:
            # history: the directory is re-used; an earlier call wrote a *related* project (same text in another line-ending style, a longer
            # text, other libraries / port): the later call must still leave exactly its own arguments on disk
            prev = case["prev"]
            try:
                pio.write_project(proj, source_variant(case["source"], prev["variant"]), prev["port"], platform=case["platform"], board=case["board"], lib_deps=prev["libs"])
            except Exception as e:  # a registered pair with printable arguments: "always writes"
                return [{"bucket": f"write_project-raised:{type(e).__name__}", "case": dict(case, kind="roundtrip"), "expected": "project written", "observed": f"earlier call raised {e!r}"}]
            (proj / "other.txt").write_text("user file")
        before = _snapshot(outer)
        kwargs = dict(platform=case["platform"], board=case["board"])
        if case["libs"] is not None or case["pass_none"]:
            kwargs["lib_deps"] = (iter(case["libs"]) if case["as_iter"] else case["libs"]) if case["libs"] is not None else None
        try:
            kwargs["platform"], kwargs["board"] = _fresh(kwargs["platform"]), _fresh(kwargs["board"])
            pio.write_project(proj, case["source"], case["port"], **kwargs)
        except Exception as e:  # a registered pair with printable arguments: "always writes"
            if kwargs.get("lib_deps") is not None and case["as_iter"]:
                kwargs["lib_deps"] = "<iterator>"
            return [{"bucket": f"write_project-raised:{type(e).__name__}", "case": dict(case, kind="roundtrip"), "expected": "project written", "observed": f"raised {e!r}"}]
        after = _snapshot(outer)
        rel = os.path.relpath(proj, outer)
        # nothing outside the project directory
        for k in set(before) | set(after):
            inside = k == rel + "/" or k.startswith(rel + "/") or (rel + "/").startswith(k)
            if not inside and before.get(k, "MISSING") != after.get(k, "MISSING"):
                fails.append(("touched-outside-project", f"{k} unchanged", f"{k} changed/created/removed"))
        if case["pre"] >= 1 and after.get(rel + "/other.txt") != b"user file":
            fails.append(("clobbered-unrelated-file", "other.txt intact", repr(after.get(rel + "/other.txt"))))
        main = after.get(rel + "/src/main.cpp")
        if main != case["source"].encode("utf-8"):
            fails.append(("main-cpp-not-verbatim", repr(case["source"].encode("utf-8"))[:200], repr(main)[:200]))
        ini_raw = after.get(rel + "/platformio.ini")
        try:
            ini_txt = ini_raw.decode("utf-8")
            cp = configparser.ConfigParser(interpolation=None)
            cp.optionxform = str
            cp.read_string(ini_txt)
        except Exception as e:
            fails.append(("ini-unreadable", "parsable INI", repr(e)))
            return [{"bucket": b, "case": dict(case, kind="roundtrip"), "expected": str(e), "observed": str(o)} for b, e, o in fails]
        import re as _re

        want_env = "env:" + _re.sub(r"[^A-Za-z0-9_]+", "_", case["board"])
        if cp.sections() != [want_env]:
            fails.append(("ini-sections", [want_env], cp.sections()))
            return [{"bucket": b, "case": dict(case, kind="roundtrip"), "expected": str(e), "observed": str(o)} for b, e, o in fails]
        sec = dict(cp[want_env])
        want_libs = []
        for x in case["libs"] or []:
            if x and x not in want_libs:
                want_libs.append(x)
        want = {"platform": case["platform"], "board": case["board"], "framework": "arduino", "upload_port": case["port"]}
        got_libs = None
        if "lib_deps" in sec:
            got_libs = [ln.strip() for ln in sec.pop("lib_deps").splitlines() if ln.strip()]
        if sec != want:
            fails.append(("ini-keys-values", want, sec))
        if (got_libs or []) != want_libs or (got_libs is not None and not want_libs):
            fails.append(("ini-lib-deps", want_libs, got_libs))
    finally:
        shutil.rmtree(base, ignore_errors=True)
    return [{"bucket": b, "case": dict(case, kind="roundtrip"), "expected": str(e), "observed": str(o)} for b, e, o in fails]


def _nontrivial(case):
    libs = case["libs"] or []
    if "" in libs or len(set(libs)) != len(libs):
        return True
    txt = case["port"] + case["source"]
    return any(c in SIG for c in case["port"]) or any(ord(c) > 127 for c in txt)


def roundtrip_shard(pio, seed, n):
    r = Result()
    pairs = sorted((p, b) for b, p in pio.BOARD_TO_PLATFORM.items())
    case_st = st.fixed_dictionaries({
        "pair": st.sampled_from(pairs), "port": port_st, "libs": libs_st, "source": source_st,
        "pre": st.sampled_from([0, 1, 2, 2]), "nested": st.integers(0, 1), "as_iter": st.booleans(), "pass_none": st.booleans(),
        "prev": st.fixed_dictionaries({"variant": st.sampled_from(VARIANTS), "port": port_st, "libs": libs_st}),
    })

    @hseed(seed)
    @hyp_settings(n)
    @given(case_st)
    def prop(c):
        case = dict(c)
        case["platform"], case["board"] = case.pop("pair")
        fails = eval_roundtrip(pio, case)
        r.case({k: (v if k != "source" else v[:300]) for k, v in case.items()}, _nontrivial(case))
        if case["libs"] and ("" in case["libs"] or len(set(case["libs"])) != len(case["libs"])):
            r.count("libs_with_dup_or_empty")
        if any(ch in SIG for ch in case["port"]):
            r.count("port_with_ini_significant_char")
        if any(ord(ch) > 127 for ch in case["source"]):
            r.count("source_non_ascii")
        if case["pre"] == 2:
            r.count("reused_directory:" + case["prev"]["variant"])
        if fails:
            r.failures.extend(fails)
            raise AssertionError(fails[0]["bucket"])

    try:
        prop()
    except AssertionError:
        # keep only the last (shrunk) failure per bucket
        last = {}
        for fl in r.failures:
            last[fl["bucket"]] = fl
        r.failures = list(last.values())
    return r


def replay(case):
    pio = _pio()
    if case.get("kind") == "pair":
        fl = check_pair(pio, case["platform"], case["board"])
        return [fl] if fl else []
    if case.get("kind") == "partition":
        return run_shard("registry-partition", 0, "quick").failures
    c = {k: v for k, v in case.items() if k != "kind"}
    return eval_roundtrip(pio, c)
