"""C16 - buzzer: every sound is bounded, silent when it should be, follows the score.

Histories of buzzer calls (op lists) with literal and tape-derived run-time arguments from {negative, 0, fractional,
small, typical, large}; one compile per history, several tapes.  There is no host model (the Python Buzzer is a no-op),
so the reference is a protocol model written from the property statement and evaluated on the TONE / NOTONE / DELAY
events of the buzzer pin between per-call markers, plus the printed getter values.
"""
from __future__ import annotations

import math

from hypothesis import Phase, given, seed as hseed, strategies as st

from vlib import fwbuild as fb, shrink
from vlib.runner import Result, hyp_settings

ID = "C16"
LEVEL = "exploration"
RULE = (
    "Hypothesis generates histories of 2-14 calls on 1-2 buzzers: play_tone(f[,d]), stop(), beep([f], on_ms, off_ms, times), sweep(a, b, duration_ms, steps), "
    "melody(name[, tempo]) for all seven melodies (incl. case variants) and getter prints, with frequencies/durations/counts/steps/tempos from negative, zero, "
    "fractional, small, typical and large values given as literals or as run-time values (analog_read() - offset); each history is compiled once (ASan+UBSan) "
    "and run with 3 (quick) / 10 (thorough) tapes. Protocol model per call: no TONE with f <= 0; calls with a duration end silent with get_state() false; beep "
    "sounds exactly n times separated by on/off delays (no trailing off); sweep plays max(1,steps) slots, monotone, first == start (steps > 1), last == end, total "
    "delay <= duration; melody == score table (order, count, rests, delays within 1 ms below beats*60000/tempo, default tempo when tempo <= 0); every call's total "
    "delay <= max(duration, 0) + 1 ms per delay; get_frequency / get_last_frequency / get_state match the model. Non-trivial = >=2 calls on one buzzer with a "
    "run-time argument, or a boundary value (0, negative, steps in {0,1,2}). distinct = distinct (history, tape)."
)
ASSUMPTIONS = ["the melody score table of the model is copied from emitter._BUZZER_MELODIES (notes) and the README (names): note values are a consistency check only; order, count, scaling and silence are checked independently",
               "audible behaviour of tone() (timers, 31 Hz minimum) is not modelled"]

HEAD = "from Reduino.Actuators import Buzzer\nfrom Reduino.Communication import SerialMonitor\nfrom Reduino.Core import analog_read\nmon = SerialMonitor(9600)\n"

MELODIES = {
    "success": (240.0, [(523.25, 0.5), (659.25, 0.5), (783.99, 1.0)]),
    "error": (200.0, [(329.63, 0.5), (261.63, 1.5)]),
    "startup": (200.0, [(261.63, 0.5), (329.63, 0.5), (392.0, 0.5), (523.25, 1.0)]),
    "notify": (240.0, [(783.99, 0.25), (0.0, 0.25), (783.99, 0.5)]),
    "alarm": (200.0, [(523.25, 0.5), (392.0, 0.5)] * 4),
    "scale_c": (200.0, [(261.63, 0.5), (293.66, 0.5), (329.63, 0.5), (349.23, 0.5), (392.0, 0.5), (440.0, 0.5), (493.88, 0.5), (523.25, 1.0)]),
    "siren": (180.0, [(659.25, 0.75), (523.25, 0.75)] * 3),
}

FREQS = [-440, -1, 0, 0.5, 1, 31, 261.63, 440, 880.5, 1000, 4186, 20000]
DURS = [-50, -1, 0, 0.5, 1, 2.5, 10, 30, 75]
COUNTS = [-2, 0, 1, 2, 3]
STEPS = [-1, 0, 1, 2, 3, 5, 10]
TEMPOS = [-60, 0, 0.5, 60, 120, 200, 480, 3000]


class Val:
    """An argument: literal value or run-time expression of a tape value."""

    def __init__(self, text, fn):
        self.text, self.fn = text, fn  # fn(tape_value) -> numeric value at run time


def lit(v):
    return Val(repr(v), lambda tv, v=v: v)


class H:
    def __init__(self, draw):
        self.draw = draw
        self.lines = []
        self.ops = []   # (marker, buzzer index, op name, {arg: Val or python}, reads_index)
        self.reads = 0
        self.k = 0
        self.runtime_args = 0
        self.boundary = 0

    def val(self, pool, integer=False):
        mode = self.draw(st.sampled_from(["lit", "lit", "rt"]))
        v = self.draw(st.sampled_from(pool))
        if v in (0, -1, -2, 1, 2) or v < 0:
            self.boundary += 1
        if mode == "lit":
            return lit(v)
        # run-time: r = analog_read("A2") - off   (tape values chosen so that r hits the pool value or its neighbourhood)
        self.reads += 1
        self.runtime_args += 1
        idx = self.reads - 1
        self.k += 1
        name = f"r{self.k}"
        if integer or float(v).is_integer():
            off = 500
            self.lines.append(f"{name} = analog_read(\"A2\") - {off}")
            return Val(name, lambda tv, off=off: tv - off), idx
        self.lines.append(f"{name} = (analog_read(\"A2\") - 500) * 0.5")
        return Val(name, lambda tv: (tv - 500) * 0.5), idx


@st.composite
def history(draw, ntapes=3):
    nb = draw(st.integers(1, 2))
    lines = [HEAD.rstrip("\n")]
    defaults = []
    plain_decl, rebound = [], {}
    for i in range(nb):
        df = draw(st.sampled_from([None, 523.0, 300]))
        plain_decl.append(df is None)
        defaults.append(440.0 if df is None else float(df))
        lines.append(f"bz{i} = Buzzer({8 + i}" + (f", default_frequency={df})" if df is not None else ")"))
    ops = []
    reads = []   # per read: the preferred tape value (so that the run-time argument hits an interesting value)
    k = [0]
    boundary = [0]
    rt_args = [0]

    def arg(pool, integer=False):
        v = draw(st.sampled_from(pool))
        if v <= 0 or v in (1, 2):
            boundary[0] += 1
        if draw(st.integers(0, 2)) < 2:
            return {"text": repr(v), "kind": "lit", "v": v}
        rt_args[0] += 1
        k[0] += 1
        name = f"r{k[0]}"
        if integer or float(v).is_integer():
            lines.append(f"{name} = analog_read(\"A2\") - 500")
            reads.append(int(v) + 500 if 0 <= int(v) + 500 <= 1023 else draw(st.integers(0, 1023)))
            return {"text": name, "kind": "rt_int", "read": len(reads) - 1}
        lines.append(f"{name} = (analog_read(\"A2\") - 500) * 0.5")
        reads.append(int(v * 2) + 500 if 0 <= int(v * 2) + 500 <= 1023 else draw(st.integers(0, 1023)))
        return {"text": name, "kind": "rt_half", "read": len(reads) - 1}

    for j in range(draw(st.integers(2, 14))):
        b = draw(st.integers(0, nb - 1))
        o = draw(st.sampled_from(["play_tone", "play_tone_d", "stop", "beep", "beep_nofreq", "sweep", "melody", "melody_tempo", "get", "residue"]))
        m = f"@{j}"
        if j >= 1 and b not in rebound and plain_decl[b] and draw(st.integers(0, 9)) == 0:
            # the name is bound to a new Buzzer on another pin: calls before this line sound on the old pin, calls after it on the new one.
            # (What the new object remembers as "last frequency" is the open finding KF-C06-buzzer-name-rebound: not judged until it has sounded.)
            rebound[b] = 28 + b
            lines += [f"bz{b} = Buzzer({28 + b})", f"mon.write('{m}r')"]
            ops.append({"m": m + "r", "b": b, "op": "rebind", "pin": 28 + b})
        if o == "residue":
            # a tone left sounding by an untimed play_tone, then a call that plays nothing (count 0 / negative), then stop() right behind it
            f = {"text": repr(draw(st.sampled_from([440, 262.5, 1000]))), "kind": "lit", "v": None}
            f["v"] = float(f["text"])
            lines += [f"bz{b}.play_tone({f['text']})", f"mon.write('{m}a')"]
            ops.append({"m": m + "a", "b": b, "op": "play_tone", "f": f, "d": None})
            if draw(st.booleans()):
                # ... or a beep that is silent because its frequency is <= 0, with real waits: the pin must be silent while they pass
                f0 = draw(st.sampled_from([0, -440, -1]))
                fz = {"text": repr(f0), "kind": "lit", "v": f0}
                on = {"text": "5", "kind": "lit", "v": 5}; off = {"text": "2", "kind": "lit", "v": 2}
                tn = draw(st.sampled_from([1, 2]))
                times = {"text": repr(tn), "kind": "lit", "v": tn}
                lines += [f"bz{b}.beep({fz['text']}, on_ms=5, off_ms=2, times={tn})", f"mon.write('{m}')"]
                ops.append({"m": m, "b": b, "op": "beep", "f": fz, "on": on, "off": off, "times": times})
                boundary[0] += 1
                continue
            t0 = draw(st.sampled_from([0, -1, -3]))
            on, off, times = arg(DURS), arg(DURS), {"text": repr(t0), "kind": "lit", "v": t0}
            lines += [f"bz{b}.beep(on_ms={on['text']}, off_ms={off['text']}, times={times['text']})", f"bz{b}.stop()", f"mon.write('{m}')"]
            ops.append({"m": m, "b": b, "op": "beep", "f": None, "on": on, "off": off, "times": times, "then_stop": True})
            boundary[0] += 1
            continue
        if o == "play_tone":
            f = arg(FREQS)
            lines.append(f"bz{b}.play_tone({f['text']})")
            ops.append({"m": m, "b": b, "op": "play_tone", "f": f, "d": None})
        elif o == "play_tone_d":
            f, d = arg(FREQS), arg(DURS)
            form = draw(st.sampled_from(["pos", "kw"]))
            lines.append(f"bz{b}.play_tone({f['text']}, {d['text']})" if form == "pos" else f"bz{b}.play_tone(frequency={f['text']}, duration_ms={d['text']})")
            ops.append({"m": m, "b": b, "op": "play_tone", "f": f, "d": d})
        elif o == "stop":
            lines.append(f"bz{b}.stop()")
            ops.append({"m": m, "b": b, "op": "stop"})
        elif o in ("beep", "beep_nofreq"):
            on, off, times = arg(DURS), arg(DURS), arg(COUNTS, integer=True)
            if o == "beep":
                f = arg(FREQS)
                lines.append(f"bz{b}.beep({f['text']}, on_ms={on['text']}, off_ms={off['text']}, times={times['text']})")
            else:
                f = None
                lines.append(f"bz{b}.beep(on_ms={on['text']}, off_ms={off['text']}, times={times['text']})")
            ops.append({"m": m, "b": b, "op": "beep", "f": f, "on": on, "off": off, "times": times})
        elif o == "sweep":
            a, e, d, s = arg(FREQS), arg(FREQS), arg(DURS), arg(STEPS, integer=True)
            lines.append(f"bz{b}.sweep({a['text']}, {e['text']}, duration_ms={d['text']}, steps={s['text']})")
            ops.append({"m": m, "b": b, "op": "sweep", "a": a, "e": e, "d": d, "s": s})
        elif o in ("melody", "melody_tempo"):
            name = draw(st.sampled_from(sorted(MELODIES)))
            shown = draw(st.sampled_from([name, name.upper(), name.capitalize()]))
            if o == "melody":
                lines.append(f"bz{b}.melody({shown!r})")
                ops.append({"m": m, "b": b, "op": "melody", "name": name, "tempo": None})
            else:
                t = arg(TEMPOS)
                lines.append(f"bz{b}.melody({shown!r}, tempo={t['text']})")
                ops.append({"m": m, "b": b, "op": "melody", "name": name, "tempo": t})
        else:
            g = draw(st.sampled_from(["get_state", "get_frequency", "get_last_frequency"]))
            lines.append(f"mon.write('g:' + str(bz{b}.{g}()))")
            ops.append({"m": m, "b": b, "op": g})
        if o in ("play_tone_d", "beep", "beep_nofreq", "sweep", "melody", "melody_tempo", "play_tone") and draw(st.integers(0, 3)) == 0:
            lines.append(f"bz{b}.stop()")   # directly after the call, nothing in between
            ops[-1]["then_stop"] = True
        lines.append(f"mon.write('{m}')")
    tapes = []
    for t in range(ntapes):
        if t == 0:
            tapes.append(list(reads))
        else:
            tapes.append([draw(st.integers(0, 1023)) if draw(st.booleans()) else r for r in reads])
    return {"src": "\n".join(lines) + "\n", "ops": ops, "tapes": tapes, "defaults": defaults, "nb": nb, "nt": (len(ops) >= 2 and rt_args[0] >= 1) or boundary[0] >= 1}


def value(a, tape):
    if a is None:
        return None
    if a["kind"] == "lit":
        return a["v"]
    tv = tape[a["read"]]
    return tv - 500 if a["kind"] == "rt_int" else (tv - 500) * 0.5


def f32(x):
    import struct

    return struct.unpack("f", struct.pack("f", x))[0]


def tone_ok(got, freq):
    want = math.floor(f32(freq) + 0.5)
    frac = (freq + 0.5) - math.floor(freq + 0.5)
    # the device computes the frequency in float32: near a .5 boundary (within a few float32 ulps of the frequency) either neighbour is right
    return got == want or (min(frac, 1 - frac) < 1e-3 + 8e-7 * abs(freq) and abs(got - want) <= 1)


def delay_ok(got, real):
    """device truncates a float number of ms: within 1 ms below (plus float32 epsilon)."""
    return got <= real * (1 + 1e-5) + 1e-6 and got > real - 1 - real * 1e-5 - 1e-6


def check_history(case, tape, trace):
    """Protocol model. Returns list of (bucket, expected, observed)."""
    fails = []
    nb = case["nb"]
    pins = [8 + i for i in range(nb)]
    # split events by markers
    seg = []
    segs = {}
    for t, k, a in trace.events:
        if k == "SER" and a.startswith("@"):
            segs[a] = seg
            seg = []
        elif k in ("TONE", "NOTONE", "DELAY", "SER"):
            seg.append((k, a))
    state = [{"sounding": False, "cur": 0.0, "last": case["defaults"][i]} for i in range(nb)]
    pin_on = {p: False for p in pins}   # what the pin is really doing (from TONE / NOTONE events)
    for op in case["ops"]:
        ev = segs.get(op["m"])
        if ev is None:
            fails.append(("marker-missing", f"marker {op['m']}", "absent (call did not return?)"))
            break
        b = op["b"]
        if op["op"] == "rebind":
            if [x for x in ev if x[0] in ("TONE", "NOTONE", "DELAY")]:
                fails.append(("rebind-makes-sound", "a declaration plays nothing", ev[:3]))
            pins[b] = op["pin"]
            pin_on.setdefault(op["pin"], False)
            state[b] = {"sounding": None, "cur": 0.0, "last": None}   # None: what the new object reports before its first call is not judged
            continue
        pin = pins[b]
        stt = state[b]
        if (stt["last"] is None and ((op["op"] == "beep" and op["f"] is None) or op["op"] == "get_last_frequency")) or (stt["sounding"] is None and op["op"] in ("get_state", "get_frequency")):
            for k, a in ev:   # not judged (see the rebind op); keep the real pin state in step
                if k in ("TONE", "NOTONE") and int(a.split()[0]) in pin_on:
                    pin_on[int(a.split()[0])] = (k == "TONE")
            continue
        mine = [(k, a) for k, a in ev if (k in ("TONE", "NOTONE") and int(a.split()[0]) == pin) or k == "DELAY"]
        other = [(k, a) for k, a in ev if k in ("TONE", "NOTONE") and int(a.split()[0]) != pin]
        if other:
            fails.append(("wrong-pin", f"only pin {pin}", other[:2]))
        tones = [int(a.split()[1]) for k, a in mine if k == "TONE"]
        delays = [int(a.split()[0]) for k, a in mine if k == "DELAY"]
        # (a requested frequency in (0, 0.5) Hz rounds to tone(pin, 0): outside the statement, which speaks of f <= 0; judged per call below)
        name = op["op"]
        # real pin state during this call: a delay of a silent call must be spent with the pin off
        loud_delays = []
        for k, a in mine:
            if k == "TONE":
                pin_on[pin] = True
            elif k == "NOTONE":
                pin_on[pin] = False
            elif k == "DELAY" and pin_on[pin] and int(a.split()[0]) > 0:
                loud_delays.append(a)
        ends_silent = None
        budget = None
        if name == "play_tone":
            f = value(op["f"], tape)
            d = value(op["d"], tape)
            if f <= 0:
                if tones:
                    fails.append(("play_tone-nonpositive-started", "f <= 0 never starts a tone", tones))
                if loud_delays:
                    fails.append(("play_tone-nonpositive-not-silent", "pin silent during play_tone with frequency <= 0", f"pin still sounding during delay {loud_delays[0]}"))
                stt.update(sounding=False, cur=0.0)
            else:
                if len(tones) != 1 or not tone_ok(tones[0], f):
                    fails.append(("play_tone-frequency", f"one TONE {f}", tones))
                stt.update(sounding=True, cur=f, last=f)
            if d is not None:
                budget = max(d, 0)
                if d >= 1 and not (len(delays) == 1 and delay_ok(delays[0], d)):
                    fails.append(("play_tone-duration", f"one delay of {d} ms", delays))
                ends_silent = True
                stt.update(sounding=False, cur=0.0)
        elif name == "stop":
            stt.update(sounding=False, cur=0.0)
            ends_silent = True
            if tones or delays:
                fails.append(("stop-makes-sound", "silence", mine[:3]))
        elif name == "beep":
            f = value(op["f"], tape) if op["f"] is not None else stt["last"]
            on, off, times = value(op["on"], tape), value(op["off"], tape), value(op["times"], tape)
            n = max(int(times), 0)
            budget = max(on, 0) * n + max(off, 0) * max(n - 1, 0)
            if f > 0:
                if len(tones) != n or any(not tone_ok(x, f) for x in tones):
                    fails.append(("beep-count", f"{n} tones of {f}", tones))
                want_d = []
                for i in range(n):
                    if on >= 1:
                        want_d.append(on)
                    if i + 1 < n and off >= 1:
                        want_d.append(off)
                if len(delays) != len(want_d) or any(not delay_ok(g, w) for g, w in zip(delays, want_d)):
                    if all(w >= 1 for w in want_d):
                        fails.append(("beep-gaps", want_d, delays))
                if n > 0:
                    stt.update(last=f)
            else:
                if tones:
                    fails.append(("beep-nonpositive-started", "no tone", tones))
                if loud_delays:
                    fails.append(("beep-nonpositive-not-silent", "pin silent during a beep with frequency <= 0", f"pin still sounding during delay {loud_delays[0]}"))
            if n > 0:
                stt.update(sounding=False, cur=0.0)
                ends_silent = True
        elif name == "sweep":
            a, e, d, s = value(op["a"], tape), value(op["e"], tape), value(op["d"], tape), value(op["s"], tape)
            a, e = max(a, 0), max(e, 0)
            steps = max(int(s), 1)
            budget = max(d, 0)
            want = [a + (e - a) * (1.0 if steps == 1 else i / (steps - 1)) for i in range(steps)]
            want_t = [w for w in want if w > 0]
            if len(tones) != len(want_t) or any(not tone_ok(g, w) for g, w in zip(tones, want_t)):
                fails.append(("sweep-tones", [math.floor(w + 0.5) for w in want_t], tones))
            up = e >= a
            if any((x > y) if up else (x < y) for x, y in zip(tones, tones[1:])):
                fails.append(("sweep-not-monotone", "monotone", tones))
            if want_t:
                stt.update(last=want_t[-1])
            stt.update(sounding=False, cur=0.0)
            ends_silent = True
        elif name == "melody":
            default, score = MELODIES[op["name"]]
            tempo = value(op["tempo"], tape) if op["tempo"] is not None else default
            if tempo <= 0:
                tempo = default
            beat = 60000.0 / tempo
            want_t = [f for f, _ in score if f > 0]
            if len(tones) != len(want_t) or any(not tone_ok(g, w) for g, w in zip(tones, want_t)):
                fails.append(("melody-notes", [math.floor(w + 0.5) for w in want_t], tones))
            want_d = [bt * beat for _, bt in score]
            vis = [w for w in want_d if w >= 1]
            if all(w >= 1 or w < 0.999 for w in want_d):
                if len(delays) != len(vis) or any(not delay_ok(g, w) for g, w in zip(delays, vis)):
                    fails.append(("melody-durations", [round(w, 2) for w in vis], delays))
            budget = sum(want_d)
            stt.update(sounding=False, cur=0.0, last=want_t[-1])
            ends_silent = True
        else:  # getters
            got = next((a[2:] for k, a in ev if k == "SER" and a.startswith("g:")), None)
            if got is None:
                fails.append(("getter-missing", "a printed value", ev))
            else:
                gv = float(got)
                if name == "get_state":
                    if gv != (1.0 if stt["sounding"] else 0.0):
                        fails.append(("get_state", stt["sounding"], got))
                elif name == "get_frequency":
                    w = stt["cur"] if stt["sounding"] else 0.0
                    if abs(gv - w) > 1e-3 * max(1.0, abs(w)):
                        fails.append(("get_frequency", w, got))
                else:
                    if abs(gv - stt["last"]) > 1e-3 * max(1.0, abs(stt["last"])):
                        fails.append(("get_last_frequency", stt["last"], got))
        if budget is not None and name == "sweep" and sum(delays) > budget + 1e-6:
            # "without exceeding the given duration": whole-millisecond delays may only round down
            fails.append(("sweep-exceeds-duration", f"total delay <= {budget} ms", f"{sum(delays)} ms in {delays[:6]}"))
        elif budget is not None and sum(delays) > budget + len(delays) + 1e-6:
            fails.append((f"{name}-not-bounded", f"total delay <= {budget} ms (+1 ms per delay)", f"{sum(delays)} ms in {delays[:4]}"))
        if name == "stop" or op.get("then_stop"):
            # stop() - alone or directly after a timed call, with no statement in between - silences whatever the pin was doing before
            stt.update(sounding=False, cur=0.0)
            if pin_on[pin]:
                fails.append(("stop-leaves-tone-on", f"pin {pin} silent after stop()", "tone started earlier is still sounding"))
        if ends_silent:
            # the last buzzer event of the call (if any tone was started) must be NOTONE
            last_tone = max((i for i, (k, a) in enumerate(mine) if k == "TONE"), default=-1)
            last_no = max((i for i, (k, a) in enumerate(mine) if k == "NOTONE"), default=-1)
            if last_tone > last_no:
                fails.append((f"{name}-leaves-tone-on", "pin silent when the call returns", mine[-3:]))
        if fails:
            break
    return fails


def evaluate(case):
    try:
        cpp = fb.transpile(case["src"])
    except ValueError as e:
        return "rejected:" + str(e)[:40], []
    out = []
    with fb.Workdir("c16") as wd:
        try:
            exe = fb.build(cpp, wd, asan=True)
        except fb.CompileError as e:
            return "FAIL", [{"bucket": "compile-error", "case": case, "expected": "compiles", "observed": str(e)[:300]}]
        for tape in case["tapes"]:
            trace = fb.run(exe, 0, fb.make_tape(analog={16: tape}, budget=400000), wd)
            if trace.status != "ok":
                kind = "sanitizer:" + ("float-cast-overflow" if "outside the range of representable values" in trace.stderr else "other") if trace.status == "sanitizer" else "firmware-" + trace.status
                det = next((ln for ln in trace.stderr.splitlines() if "runtime error" in ln or "ERROR" in ln), trace.stderr[-200:])
                out.append({"bucket": kind, "case": dict(case, tapes=[tape]), "expected": "no undefined behaviour, runs to completion", "observed": det[:300]})
                break
            fails = check_history(case, tape, trace)
            if fails:
                b, e, o = fails[0]
                out.append({"bucket": b, "case": dict(case, tapes=[tape]), "expected": str(e), "observed": str(o)})
                break
    return ("FAIL" if out else "ok"), out


def plan(tier):
    q = tier == "quick"
    return [(f"gen-{i}", {"n": 15 if q else 200, "ntapes": 3 if q else 10}) for i in range(16)]


def run_shard(name, seed, tier, n, ntapes):
    r = Result()
    found = {}

    @hseed(seed)
    @hyp_settings(n, phases=(Phase.generate,))
    @given(history(ntapes=ntapes))
    def prop(case):
        status, fails = evaluate(case)
        r.count("status:" + status.split(":")[0])
        for tp in case["tapes"]:
            r.case({"src": case["src"], "tape": tp} if len(r.samples) < 1 else {"h": hash(case["src"]) & 0xffffff, "t": hash(tuple(tp)) & 0xffffff}, status == "ok" and case["nt"])
        for fl in fails:
            if fl["bucket"] not in found or len(case["src"]) < len(found[fl["bucket"]]["case"]["src"]):
                found[fl["bucket"]] = fl

    prop()
    r.failures = list(found.values())
    return r


def replay(case):
    return evaluate(case)[1][:1]
