"""C03 - transpile-time evaluation (constant folding / propagation) never changes meaning.

Metamorphic pairs + differential.  Every scenario places a foldable position (delay, pin, blink/fade/brightness
arguments, range bound, len(), flash pattern, glyph bitmap, sensor model) and is rendered twice: P with the literal in
place and P' with the same value routed through run-time variables / helpers (T1/T3).  Additional assignments and
mutations in other branches / loop bodies (T2) are applied to both.  Oracle: trace(P) == CPython(P), trace(P') ==
CPython(P') and, because T1/T3 preserve Python semantics, trace(P) == trace(P').
"""
from __future__ import annotations

import re

from hypothesis import Phase, given, seed as hseed, strategies as st

from vlib import diff, fwbuild as fb, tracecmp as tc
from vlib.runner import Result, hyp_settings

ID = "C03"
LEVEL = "translation_validation"
RULE = (
    "Hypothesis composes 2-5 folding scenarios per script: sleep / Led pin / blink(duration,times) / fade(step,delay) / "
    "set_brightness / range bound / analog_write value given as folded literal arithmetic (incl. floats, bools, abs/min/max/"
    "int/len of literals, and recursive constant trees with + - * // %, conditional expressions, 2-4 operand comparison chains with mixed operators, and/or/not) and as variables assigned just before, far before, in both branches of a tape-controlled if, before "
    "a loop that re-assigns them, or through a helper; len() of str/list names; flash_pattern and glyph bitmaps by name; "
    "Ultrasonic model by name. Each script is rendered as P (literal) and P' (variable/helper) and both are run for N passes. "
    "Oracle: both agree with CPython and with each other. Non-trivial = a scenario where the operand's value at the program "
    "point differs from its first (transpile-time) value on an executed path, or a mutation located in a branch/loop. "
    "distinct = distinct script pair + tape. Fold shards: thousands of recursive constant trees E placed in sleep / analog_write / blink / assigned-then-used positions; whenever "
    "the emitted argument is a number, the sketch must be byte-identical to the sketch for the literal value Python gives E (non-trivial = E contains a condition, comparison, // or %)."
)
ASSUMPTIONS = ["same trusted base as C01", "open staleness classes (len of a later-mutated name, flash_pattern after a conditional re-assignment, device pin given by a later re-assigned name) are excluded by construction; their witnesses run"]

HEAD = ("from Reduino.Actuators import Led\nfrom Reduino.Communication import SerialMonitor\nfrom Reduino.Core import analog_read, analog_write\n"
        "from Reduino.Displays import LCD\nfrom Reduino.Sensors import Ultrasonic\nfrom Reduino.Utils import sleep\nmon = SerialMonitor(9600)\n")

# ---- recursive constant expressions (every leaf a literal), built bottom-up with their Python value
def _cnum(draw, depth):
    """(text, value): a non-negative int or quarter-valued float constant expression."""
    if depth <= 0 or draw(st.integers(0, 3)) == 0:
        if draw(st.integers(0, 4)) == 0:
            v = draw(st.integers(0, 80)) / 4.0
            return repr(v), v
        v = draw(st.integers(0, 20))
        return str(v), v
    k = draw(st.sampled_from(["add", "sub", "mul", "floordiv", "mod", "tern", "tern", "abs", "min", "max", "int", "boolnum", "len", "paren"]))
    a, av = _cnum(draw, depth - 1)
    if k in ("abs", "int", "paren", "len"):
        if k == "abs":
            return f"abs(0 - {a})" if draw(st.booleans()) else f"abs({a})", av
        if k == "int":
            return f"int({a})", int(av)
        if k == "len":
            n = draw(st.integers(0, 6))
            return f"len({'x' * n!r})", n
        return f"({a})", av
    if k == "boolnum":
        c, cv = _cbool(draw, depth - 1)
        return f"({c} + {a})", cv + av
    b, bv = _cnum(draw, depth - 1)
    if k == "add":
        return f"({a} + {b})", av + bv
    if k == "sub":
        return (f"({a} - {b})", av - bv) if av >= bv else (f"({b} - {a})", bv - av)
    if k == "mul":
        return (f"({a} * {b})", av * bv) if av * bv <= 200 else (f"({a} + {b})", av + bv)
    if k in ("floordiv", "mod"):
        if isinstance(av, float) or isinstance(bv, float) or bv == 0:
            return f"({a} + {b})", av + bv
        return (f"({a} // {b})", av // bv) if k == "floordiv" else (f"({a} % {b})", av % bv)
    if k in ("min", "max"):
        if isinstance(av, float) != isinstance(bv, float):
            return f"({a} + {b})", av + bv
        return f"{k}({a}, {b})", (min if k == "min" else max)(av, bv)
    c, cv = _cbool(draw, depth - 1)
    return f"({a} if {c} else {b})", (av if cv else bv)


def _cbool(draw, depth):
    """(text, value): comparison chains (2-4 operands, mixed operators), and / or / not over them."""
    k = draw(st.sampled_from(["cmp", "chain", "chain", "and", "or", "not"])) if depth > 0 else "cmp"
    ops = {"<": lambda x, y: x < y, "<=": lambda x, y: x <= y, ">": lambda x, y: x > y, ">=": lambda x, y: x >= y, "==": lambda x, y: x == y, "!=": lambda x, y: x != y}
    if k in ("cmp", "chain"):
        n = 2 if k == "cmp" else draw(st.integers(3, 4))
        # small operand alphabet: chains whose pairwise truth differs from "compare everything with the first operand" are frequent
        terms = [(str(v), v) for v in (draw(st.integers(0, 5)) for _ in range(n))] if draw(st.booleans()) else [_cnum(draw, 0) for _ in range(n)]
        syms = [draw(st.sampled_from(sorted(ops))) for _ in range(n - 1)]
        text = terms[0][0]
        val = True
        for i, sy in enumerate(syms):
            text += f" {sy} {terms[i + 1][0]}"
            val = val and ops[sy](terms[i][1], terms[i + 1][1])
        return f"({text})", val
    a, av = _cbool(draw, depth - 1)
    if k == "not":
        return f"(not {a})", (not av)
    b, bv = _cbool(draw, depth - 1)
    return (f"({a} and {b})", av and bv) if k == "and" else (f"({a} or {b})", av or bv)


def const_tree(draw, lo=0, hi=40):
    if draw(st.booleans()):
        # a decision at the top: the two arms differ, so a mis-folded condition changes the value
        c, cv = _cbool(draw, draw(st.integers(1, 2)))
        a, av = _cnum(draw, draw(st.integers(0, 1)))
        b, bv = _cnum(draw, draw(st.integers(0, 1)))
        if av == bv:
            b, bv = f"({b} + 1)", bv + 1
        text, val = f"({a} if {c} else {b})", (av if cv else bv)
    else:
        text, val = _cnum(draw, draw(st.integers(1, 3)))
    if val > hi:
        text, val = f"min({text}, {hi if isinstance(val, int) else float(hi)!r})", (hi if isinstance(val, int) else float(hi))
    if val < lo:
        text, val = f"max({text}, {lo if isinstance(val, int) else float(lo)!r})", (lo if isinstance(val, int) else float(lo))
    assert eval(text, {"__builtins__": {}}, {"abs": abs, "min": min, "max": max, "int": int, "len": len}) == val, text
    return text, val


# folded literal expressions with their Python value
def const_exprs(draw, lo=0, hi=40):
    if draw(st.booleans()):
        return const_tree(draw, lo, hi)
    a = draw(st.integers(lo, hi)); b = draw(st.integers(1, 9))
    forms = [
        (f"{a}", a), (f"({a} + {b})", a + b), (f"({a} * {b})", a * b), (f"({a + b} - {b})", a), (f"({a} // {b})", a // b), (f"({a} % {b})", a % b),
        (f"abs({-a})", a), (f"max({a}, {b})", max(a, b)), (f"min({a}, {b})", min(a, b)), (f"int({a}.75)", a), (f"len('{'x' * (a % 7)}')", a % 7),
        (f"({a} if {a} > {b} else {b})", a if a > b else b), (f"{a}.5", a + 0.5), (f"({a} / 2)", a / 2), (f"(True + {a})", a + 1),
        (f"{a}.75", a + 0.75), (f"({a} + 0.5)", a + 0.5), (f"({2 * a + 1} / 2)", a + 0.5), (f"len({[1] * (a % 4)!r})", a % 4), (f"len({tuple([0] * (b % 3))!r})", b % 3),
        (f"({a}.5 + {b}.25)", a + b + 0.75), (f"float({a})", float(a)), (f"({a} * 1.5)", a * 1.5),
    ]
    return draw(st.sampled_from(forms))


class B:
    def __init__(self, draw):
        self.draw = draw
        self.k = 0
        self.pre = {"lit": [], "var": []}
        self.body = {"lit": [], "var": []}
        self.loop = {"lit": [], "var": []}
        self.labels = []
        self.reads = 0
        self.stale_possible = False
        self.tuple_derived = False

    def nm(self, p="v"):
        self.k += 1
        return f"{p}{self.k}"

    def both(self, where, lines):
        for m in ("lit", "var"):
            getattr(self, where)[m].extend(lines)

    def cond(self):
        self.reads += 1
        return f"analog_read(\"A0\") > {self.draw(st.sampled_from([100, 500, 900]))}"

    def route(self, expr, value, where="body"):
        """Return (text for P, text for P') for one foldable operand; P' reads it from a variable / helper."""
        how = self.draw(st.sampled_from(["just_before", "far_before", "both_branches", "helper", "reassigned_before", "loop_reassigned", "swapped", "rotated"]))
        v = self.nm("d")
        if how == "just_before":
            getattr(self, where)["var"].append(f"{v} = {expr}")
        elif how == "far_before":
            self.body["var"].insert(0, f"{v} = {expr}")
        elif how == "both_branches":
            c = self.cond()
            self.reads -= 1  # the lit variant must consume the same tape: emit the read in both
            c_name = self.nm("c")
            self.both(where, [f"{c_name} = {c}"])
            self.reads += 1
            getattr(self, where)["var"] += [f"if {c_name}:", f"    {v} = {expr}", "else:", f"    {v} = {expr}"]
        elif how == "helper":
            h = self.nm("k")
            self.pre["var"] += [f"def {h}():", f"    return {expr}"]
            return expr, f"{h}()"
        elif how == "reassigned_before":
            other = self.draw(st.integers(0, 50))
            getattr(self, where)["var"] += [f"{v} = {other}", f"{v} = {expr}"]
            self.stale_possible = True
            if other % 3 == 0:
                # (no extra draw) the re-bound name is read by a compound element of a top-level tuple assignment of all-new names:
                # the element must be evaluated at its program point, not as a static initialiser from the first binding
                w, u = self.nm("d"), self.nm("d")
                self.body["var"] += [f"{w}, {u} = {v} + 0, {other}"] if where == "body" else []
                if where == "body":
                    self.tuple_derived = True
                    return expr, w
        elif how in ("swapped", "rotated"):
            # the operand reaches its name through a swap / three-way rotation of already assigned names (tuple assignment through temporaries)
            w = self.nm("d")
            other = self.draw(st.integers(0, 50))
            if how == "swapped":
                getattr(self, where)["var"] += [f"{v} = {expr}", f"{w} = {other}", f"{v}, {w} = {w}, {v}"]
            else:
                u = self.nm("d")
                getattr(self, where)["var"] += [f"{v} = {expr}", f"{w} = {other}", f"{u} = {other + 1}", f"{v}, {w}, {u} = {u}, {v}, {w}"]
            self.stale_possible = True
            return expr, w   # a later target of the statement: its new value is the *old* value of an earlier target
        elif how == "loop_reassigned":
            k = self.nm("k")
            getattr(self, where)["var"] += [f"{v} = 1", f"for {k} in range(2):", f"    {v} = {v} + 1", f"{v} = {expr}"]
            self.stale_possible = True
        return expr, v

    # ---------------- scenarios
    def s_sleep(self):
        e, val = const_exprs(self.draw)
        where = self.draw(st.sampled_from(["body", "loop"]))
        p, q = self.route(e, val, where)
        getattr(self, where)["lit"].append(f"sleep({p})")
        getattr(self, where)["var"].append(f"sleep({q})")
        self.both(where, ["mon.write(1)"])
        return "sleep"

    def s_led_args(self):
        led = self.nm("led")
        pin_e, pin_v = self.draw(st.sampled_from([("13", 13), ("(10 + 2)", 12), ("max(3, 5)", 5), ("int(6.9)", 6)]))
        self.both("body", [f"{led} = Led({pin_e})"])
        meth = self.draw(st.sampled_from(["blink", "set_brightness", "fade_in", "fade_out", "blink_kw"]))
        where = self.draw(st.sampled_from(["body", "loop"]))
        if meth in ("blink", "blink_kw"):
            e1, _ = const_exprs(self.draw, 0, 6); e2, _ = self.draw(st.sampled_from([("2", 2), ("(1 + 1)", 2), ("min(3, 1)", 1), ("(3 - 3)", 0)]))
            p1, q1 = self.route(e1, None, where); p2, q2 = self.route(e2, None, where)
            if meth == "blink":
                getattr(self, where)["lit"].append(f"{led}.blink({p1}, {p2})"); getattr(self, where)["var"].append(f"{led}.blink({q1}, {q2})")
            else:
                getattr(self, where)["lit"].append(f"{led}.blink(times={p2}, duration_ms={p1})"); getattr(self, where)["var"].append(f"{led}.blink(times={q2}, duration_ms={q1})")
        elif meth == "set_brightness":
            e, _ = self.draw(st.sampled_from([("128", 128), ("(100 + 27)", 127), ("(255 - 0)", 255), ("int(12.9)", 12), ("(510 // 2)", 255), ("(17 % 256)", 17), ("abs(-40)", 40),
                                                ("12.9", 12), ("127.5", 127), ("(25.25 * 2)", 50), ("0.9", 0), ("(254.75 + 0.0)", 254), ("max(3.5, 1.5)", 3)]))
            p, q = self.route(e, None, where)
            getattr(self, where)["lit"].append(f"{led}.set_brightness({p})"); getattr(self, where)["var"].append(f"{led}.set_brightness({q})")
            self.both(where, [f"mon.write({led}.get_brightness())"])
        else:
            e1, _ = self.draw(st.sampled_from([("100", 100), ("(50 + 50)", 100), ("(255 // 2)", 127), ("max(64, 90)", 90)]))
            e2, _ = self.draw(st.sampled_from([("0", 0), ("1", 1), ("(4 - 2)", 2), ("int(1.5)", 1)]))
            p1, q1 = self.route(e1, None, where); p2, q2 = self.route(e2, None, where)
            self.both(where, [f"{led}.set_brightness(30)"])
            getattr(self, where)["lit"].append(f"{led}.{meth}({p1}, {p2})"); getattr(self, where)["var"].append(f"{led}.{meth}({q1}, {q2})")
        return "led_args:" + meth.replace("_kw", "")

    def s_range(self):
        e, val = self.draw(st.sampled_from([("3", 3), ("(1 + 2)", 3), ("(7 // 2)", 3), ("len('ab')", 2), ("max(0, 2)", 2), ("(5 % 3)", 2), ("int(2.9)", 2), ("0", 0)]))
        where = self.draw(st.sampled_from(["body", "loop"]))
        p, q = self.route(e, val, where)
        k = self.nm("k")
        getattr(self, where)["lit"] += [f"for {k} in range({p}):", f"    mon.write({k})"]
        getattr(self, where)["var"] += [f"for {k} in range({q}):", f"    mon.write({k})"]
        return "range"

    def s_analog_write(self):
        e, val = const_exprs(self.draw, 0, 25)
        where = self.draw(st.sampled_from(["body", "loop"]))
        p, q = self.route(e, val, where)
        getattr(self, where)["lit"].append(f"analog_write(5, int({p}))"); getattr(self, where)["var"].append(f"analog_write(5, int({q}))")
        return "analog_write"

    def s_len_safe(self):
        """len() of names whose value at the use equals the transpile-time value, with mutations after the last use / at the same level."""
        kind = self.draw(st.sampled_from(["str", "list", "runtime_str", "runtime_list"]))
        x = self.nm("s")
        if kind == "str":
            s0 = self.draw(st.text(alphabet="abcxyz", max_size=6))
            self.both("body", [f"{x} = {s0!r}", f"mon.write(len({x}))", f"{x} = {x} + 'q'", f"mon.write(len({x}))"])
            self.stale_possible = True
        elif kind == "list":
            self.both("body", [f"{x} = [1, 2, 3]", f"mon.write(len({x}))", f"{x}.append(7)", f"mon.write(len({x}))", f"{x}.remove(2)", f"mon.write(len({x}))"])
            self.stale_possible = True
        elif kind == "runtime_str":
            self.reads += 1
            self.both("body", [f"{x} = str(analog_read(\"A0\"))", f"mon.write(len({x}))", f"{x} = {x} + str(analog_read(\"A0\"))", f"mon.write(len({x}))"])
            self.reads += 1
            self.stale_possible = True
        else:
            self.reads += 1
            self.both("body", [f"{x} = [j * 2 for j in range(analog_read(\"A0\") % 4)]", f"mon.write(len({x}))", f"{x}.append(1)", f"mon.write(len({x}))"])
            self.stale_possible = True
        return "len:" + kind

    def s_flash_pattern(self):
        led, pat = self.nm("led"), self.nm("pat")
        vals = [self.draw(st.sampled_from([0, 1, 2, 128, 255, 64])) for _ in range(self.draw(st.integers(1, 4)))]
        self.both("body", [f"{led} = Led(6)"])
        d_e, _ = self.draw(st.sampled_from([("5", 5), ("(2 + 3)", 5), ("0", 0)]))
        p, q = self.route(d_e, None, "body")
        self.body["lit"].append(f"{led}.flash_pattern({vals!r}, {p})")
        self.body["var"] += [f"{pat} = {vals!r}", f"{led}.flash_pattern({pat}, delay_ms={q})"]
        # the tracked list is mutated at the same level before a further use: the baked pattern must follow
        if self.draw(st.booleans()):
            cur = list(vals)
            muts = []
            for _ in range(self.draw(st.integers(1, 3))):
                if cur and self.draw(st.booleans()):
                    v = self.draw(st.sampled_from(cur))
                    muts.append(f"{pat}.remove({v})")
                    cur.remove(v)
                else:
                    v = self.draw(st.sampled_from([0, 1, 2, 255, 7]))
                    muts.append(f"{pat}.append({v})")
                    cur.append(v)
            if cur:
                self.body["lit"].append(f"{led}.flash_pattern({cur!r}, 1)")
                self.body["var"] += muts + [f"{led}.flash_pattern({pat}, 1)"]
                vals = cur
        # T2: a re-assignment *after* the use (must not travel back in time)
        vals2 = [self.draw(st.sampled_from([0, 1, 2, 200])) for _ in vals]
        self.body["lit"].append(f"{led}.flash_pattern({vals2!r}, 1)")
        self.body["var"] += [f"{pat} = {vals2!r}", f"{led}.flash_pattern({pat}, 1)"]
        return "flash_pattern"

    def s_pattern_from_history(self):
        """a pattern (or glyph row) computed from a scalar with a history of plain and augmented re-assignments: whatever is baked must be the
        value Python computes at that point (a transpiler that cannot know it has to refuse)."""
        led, lv, pat = self.nm("led"), self.nm("lv"), self.nm("pat")
        self.both("body", [f"{led} = Led(6)"])
        val = self.draw(st.integers(1, 9))
        hist = [f"{lv} = {val}"]
        for _ in range(self.draw(st.integers(1, 3))):
            a = self.draw(st.integers(2, 5))
            op = self.draw(st.sampled_from(["+=", "-=", "*=", "//=", "%=", "= +", "= *", "= //"]))
            if op == "-=" and val < a:
                op = "+="
            if op in ("+=", "-=", "*=", "//=", "%="):
                hist.append(f"{lv} {op} {a}")
                val = {"+=": val + a, "-=": val - a, "*=": val * a, "//=": val // a, "%=": val % a}[op]
            else:
                sym = op.split()[1]
                hist.append(f"{lv} = {lv} {sym} {a}")
                val = {"+": val + a, "*": val * a, "//": val // a}[sym]
        c = self.draw(st.integers(1, 3))
        vals = [min(val * c * 10, 255), 0, min(val, 255)]
        self.body["lit"].append(f"{led}.flash_pattern({vals!r}, 1)")
        self.body["var"] += hist + [f"{pat} = [min({lv} * {c * 10}, 255), 0, min({lv}, 255)]", f"{led}.flash_pattern({pat}, 1)"]
        self.both("body", ["mon.write(1)"])
        return "pattern_from_history"

    def s_branch_isolation(self):
        """a tracked pattern is re-assigned and used inside one branch; a sibling branch uses the name too and must see the value from before the `if`"""
        led, pat = self.nm("led"), self.nm("pat")
        self.both("body", [f"{led} = Led(6)"])
        base = [self.draw(st.sampled_from([0, 1, 128, 255])) for _ in range(3)]
        c = self.nm("c")
        self.reads += 1
        self.both("body", [f"{c} = analog_read(\"A0\")"])
        nb = self.draw(st.integers(2, 3))
        lit, var = [], [f"{pat} = {base!r}"]
        heads = [f"if {c} > 700:", f"elif {c} > 300:", "else:"] if nb == 3 else [f"if {c} > 500:", "else:"]
        for i, hd in enumerate(heads):
            lit.append(hd); var.append(hd)
            if self.draw(st.booleans()) and i < len(heads) - 1:
                new = [self.draw(st.sampled_from([0, 1, 64, 255])) for _ in range(3)]
                var.append(f"    {pat} = {new!r}")
                cur = new
            else:
                cur = base
            lit.append(f"    {led}.flash_pattern({cur!r}, 1)")
            var.append(f"    {led}.flash_pattern({pat}, 1)")
            lit.append(f"    mon.write({i})"); var.append(f"    mon.write({i})")
        self.body["lit"] += lit
        self.body["var"] += var
        self.stale_possible = True
        return "branch_isolation"

    def s_glyph(self):
        if getattr(self, "lcd", None) is None:
            self.lcd = "lcd"
            self.both("body", ["lcd = LCD(rs=12, en=11, d4=5, d5=4, d6=3, d7=2)"])
        rows = [self.draw(st.integers(0, 40)) for _ in range(8)]
        folded = [self.draw(st.sampled_from([f"{v}", f"({v} + 0)", f"({v * 2} // 2)", f"max({v}, 0)", f"int({v}.9)", f"({v + 32} - 32)"])) for v in rows]
        slot_e = self.draw(st.sampled_from(["0", "(1 + 2)", "7", "min(2, 5)"]))
        # bitmap rows given by names with a history (assigned far before, in both branches, re-assigned, swapped, rotated): names in a bitmap are
        # folded at transpile time, so the value must be the one the name holds at this point of the run
        for i_ in range(8):
            if self.draw(st.integers(0, 3)) == 0:
                _, q = self.route(str(rows[i_]), rows[i_], "body")
                if not q.endswith("()"):
                    folded[i_] = q
        self.body["lit"].append(f"lcd.glyph({slot_e}, {rows!r})")
        self.body["var"].append(f"lcd.glyph({slot_e}, [{', '.join(folded)}])")
        named = [i_ for i_ in range(8) if re.fullmatch(r"d\d+", folded[i_])]
        if len(named) >= 2 and self.draw(st.booleans()):
            # the same bitmap expression once more after two of its names were re-bound by one tuple assignment: the text is identical, the value is not
            ia, ib = named[0], named[-1]
            na, nb = self.draw(st.integers(0, 31)), self.draw(st.integers(0, 31))
            rows2 = list(rows); rows2[ia], rows2[ib] = na, nb
            self.body["lit"].append(f"lcd.glyph({slot_e}, {rows2!r})")
            self.body["var"] += [f"{folded[ia]}, {folded[ib]} = {na}, {nb}", f"lcd.glyph({slot_e}, [{', '.join(folded)}])"]
            self.stale_possible = True
        return "glyph"

    def s_sensor_model(self):
        u, m = self.nm("u"), self.nm("m")
        model = self.draw(st.sampled_from(["HC-SR04", "hc-sr04", "hc_sr04", " HC-SR04 "]))
        self.body["lit"].append(f"{u} = Ultrasonic(7, 8, sensor={model!r})")
        self.body["var"] += [f"{m} = {model!r}", f"{u} = Ultrasonic(7, 8, sensor={m})"]
        return "sensor_model"

    def s_runtime_operand(self):
        """operand whose run-time value differs from its first (transpile-time) value on the executed path."""
        d = self.nm("d")
        form = self.draw(st.sampled_from(["branch_const", "loop_acc", "pass_acc", "tape_add", "elif_const"]))
        use = self.draw(st.sampled_from(["sleep({})", "analog_write(5, {})", "RANGE", "led.blink({}, 1)", "led.set_brightness({})", "led.fade_in(100, {})"]))
        if "led." in use and not getattr(self, "rled", None):
            self.rled = True
            self.both("body", ["led = Led(9)"])
        uses = []
        shown = d
        derive = []
        if form != "pass_acc" and self.draw(st.booleans()):
            # a new top-level name computed from the operand *after* it changed: its value is the operand's run-time value, not the first one
            e = self.nm("e")
            derive = [f"{e} = {d} + {self.draw(st.integers(0, 3))}"]
            shown = e
        # the operand may sit anywhere inside the argument expression (second argument of a clamp, nested call, either side of an operator)
        wrap = self.draw(st.sampled_from(OPERAND_WRAPS))
        arg = wrap.format(shown)
        if use == "RANGE":
            k = self.nm("k")
            uses = derive + [f"for {k} in range({arg}):", f"    mon.write({k})"]
        else:
            uses = derive + [use.format(arg), f"mon.write({shown})"]
        if form == "branch_const":
            lines = [f"{d} = 3", f"if {self.cond()}:", f"    {d} = {self.draw(st.integers(4, 9))}"] + uses
            self.both("body", lines)
        elif form == "elif_const":
            n = self.nm("n")
            self.reads += 1
            lines = [f"{d} = 2", f"{n} = analog_read(\"A0\")", f"if {n} > 800:", f"    {d} = 5", f"elif {n} > 300:", f"    {d} = 7", "else:", "    pass"] + uses
            self.both("body", lines)
        elif form == "loop_acc":
            k = self.nm("k")
            lines = [f"{d} = 1", f"for {k} in range({self.draw(st.integers(1, 3))}):", f"    {d} = {d} + 2"] + uses
            self.both("body", lines)
        elif form == "pass_acc":
            self.both("body", [f"{d} = 1"])
            self.both("loop", uses + [f"{d} = {d} + 2"])
        else:
            self.reads += 1
            lines = [f"{d} = 3", f"{d} = {d} + (analog_read(\"A0\") % 3)"] + uses
            self.both("body", lines)
        self.stale_possible = True
        return "runtime_operand:" + form

    def s_param_shadow(self):
        """a helper parameter that shares its name with a top-level constant: inside the helper the name means the argument.
        P uses a fresh parameter name (alpha-renaming), P' the colliding one; the helper is called with other values."""
        base = self.draw(st.sampled_from(["top", "lvl", "max", "min", "len"]))
        used = getattr(self, "shadow_names", set())
        g = base if base not in used else self.nm(base)
        used.add(g); self.shadow_names = used
        h, p = self.nm("k"), self.nm("p")
        k1 = self.draw(st.integers(0, 40)); k2 = self.draw(st.integers(0, 40).filter(lambda v: v != k1)); k3 = self.draw(st.integers(0, 12))
        use = self.draw(st.sampled_from(["sleep({})", "analog_write(5, {})", "RANGE", "led.blink({}, 1)", "led.set_brightness({})", "mon.write({} + 1)", "sleep({} * 2)"]))
        if "led." in use and not getattr(self, "rled", None):
            self.rled = True
            self.both("body", ["led = Led(9)"])
        for m, n in (("lit", p), ("var", g)):
            body = [f"    for q in range({n} % 5):", "        mon.write(q)"] if use == "RANGE" else ["    " + use.format(n)]
            self.pre[m] += [f"{g} = {k1}", f"def {h}({n}):"] + body + [f"    mon.write({n})"]
        self.both("body", [f"{h}({k2})", f"mon.write({g})"])
        if self.draw(st.booleans()):
            self.both("loop", [f"{h}({k3})"])
        self.stale_possible = True
        return "param_shadow"

OPERAND_WRAPS = ["{0}", "{0}", "min(200, {0})", "min({0}, 200)", "max(1, {0})", "max({0}, 1)", "min(200, max(0, {0}))", "max(0, min({0}, 200))", "abs({0})", "int({0})",
                 "({0} + 1)", "(1 + {0})", "(2 * {0})", "(20 - {0})", "(3 + min(40, {0}))", "({0} if {0} > 3 else 1)", "abs(0 - {0})", "max(2, 1, {0})", "int({0} * 1.5)"]

KINDS = ["branch_isolation", "pattern_from_history", "param_shadow", "sleep", "led_args", "range", "analog_write", "len_safe", "flash_pattern", "glyph", "sensor_model", "runtime_operand"]


@st.composite
def pair(draw):
    b = B(draw)
    for _ in range(draw(st.integers(2, 5))):
        b.labels.append(getattr(b, "s_" + draw(st.sampled_from(KINDS)))())
    n = draw(st.integers(1, 3)) if b.loop["lit"] or b.loop["var"] else draw(st.integers(0, 1))
    srcs = {}
    for m in ("lit", "var"):
        src = HEAD + "\n".join(b.pre[m]) + ("\n" if b.pre[m] else "") + "\n".join(b.body[m]) + "\n"
        if b.loop[m]:
            src += "while True:\n" + "\n".join("    " + ln for ln in b.loop[m]) + "\n"
        srcs[m] = src
    reads = (b.reads + 2) * (n + 1) + 4
    tape = {"analog": {"14": draw(st.lists(st.sampled_from([0, 50, 150, 400, 600, 850, 950, 1023]), min_size=reads, max_size=reads))}, "digital": {}}
    return {"lit": srcs["lit"], "var": srcs["var"], "n": n, "tape": tape, "labels": b.labels, "stale_possible": b.stale_possible}


def _tape(t):
    return {k: {int(p): v for p, v in d.items()} for k, d in t.items()}


def evaluate_pair(case):
    """Returns (status, bucket, detail)."""
    outs = {}
    for m in ("lit", "var"):
        if m not in case:
            continue
        o = diff.evaluate(case[m], case["n"], _tape(case["tape"]), off=frozenset())
        outs[m] = o
        if o.status == "FAIL":
            return "FAIL", f"{m}:{o.bucket}", o.detail
        if o.status in ("not-well-defined", "rejected-other"):
            return o.status, "", o.detail
    if len(outs) == 2 and all(o.status == "ok" for o in outs.values()):
        a = tc._collapse(tc.fw_obs(outs["lit"].trace), drop_reads=False, side="fw")
        b = tc._collapse(tc.fw_obs(outs["var"].trace), drop_reads=False, side="fw")
        sa = [x[1:] for x in a]; sb = [x[1:] for x in b]
        if sa != sb:
            i = next((i for i, (x, y) in enumerate(zip(sa, sb)) if x != y), min(len(sa), len(sb)))
            return "FAIL", "pair:literal-vs-variable-differ", f"event {i}: P {sa[i] if i < len(sa) else None} vs P' {sb[i] if i < len(sb) else None}"
    if any(o.status == "rejected" for o in outs.values()):
        # rejection of either variant is allowed by the property (fail with an error); counted, not judged
        return "rejected", "", "; ".join(f"{m}:{o.status}:{o.detail[:40]}" for m, o in outs.items())
    return "ok", "", ""


def plan(tier):
    n = 25 if tier == "quick" else 600
    return [(f"gen-{i}", {"n": n}) for i in range(16)] + [(f"fold-{i}", {"n": 600 if tier == "quick" else 20000}) for i in range(4)]


# ---- fold shards: a constant tree in a foldable position must be folded to the value Python gives it
FOLD_SITES = [("sleep({})", r"delay\(([^;]*)\);"), ("analog_write(5, {})", r"analogWrite\(5, ([^;]*)\);"), ("led.blink({}, 1)", r"delay\(([^;]*)\);"),
              ("x = {}\nsleep(x)", r"(?:int|long|float|double|bool) x = ([^;]*);")]
FOLD_HEAD = "from Reduino.Actuators import Led\nfrom Reduino.Core import analog_write\nfrom Reduino.Utils import sleep\nled = Led(9)\n"
_NUM = __import__("re").compile(r"^\(?-?\d+(\.\d+)?(e-?\d+)?f?\)?$")


def eval_fold(case):
    """the sketch for `site(E)` must be the sketch for `site(literal value of E)` whenever E was folded to a number at all"""
    import re

    site, pat = FOLD_SITES[case["site"]]
    try:
        a = fb.transpile(FOLD_HEAD + site.format(case["expr"]) + "\n")
        b = fb.transpile(FOLD_HEAD + site.format(repr(case["value"])) + "\n")
    except ValueError:
        return "rejected", None
    ma = re.search(pat, a)
    if not ma or not _NUM.match(ma.group(1).strip()):
        return "not-folded", None
    if a != b:
        mb = re.search(pat, b)
        return "FAIL", {"bucket": "folded-to-another-value", "case": dict(case, kind="fold"), "expected": f"{case['expr']} == {case['value']!r}: argument {mb.group(1) if mb else '?'}",
                        "observed": f"argument {ma.group(1)}"}
    return "ok", None


def run_fold(name, seed, tier, n):
    r = Result()
    last = {}

    @hseed(seed)
    @hyp_settings(n, phases=(Phase.generate,))
    @given(st.data())
    def prop(data):
        text, val = const_tree(data.draw, 0, 200)
        case = {"expr": text, "value": val, "site": data.draw(st.integers(0, len(FOLD_SITES) - 1))}
        status, fl = eval_fold(case)
        r.count("fold:" + status)
        r.case(case if len(r.samples) < 1 else {"e": text}, status == "ok" and (" if " in text or "<" in text or ">" in text or "//" in text or "%" in text))
        if fl and (fl["bucket"] not in last or len(text) < len(last[fl["bucket"]]["case"]["expr"])):
            last[fl["bucket"]] = fl

    prop()
    r.failures = list(last.values())
    return r


def run_shard(name, seed, tier, n):
    if name.startswith("fold"):
        return run_fold(name, seed, tier, n)
    r = Result()
    found = {}

    @hseed(seed)
    @hyp_settings(n, phases=(Phase.generate,))
    @given(pair())
    def prop(case):
        status, bucket, detail = evaluate_pair(case)
        r.count("status:" + status)
        if status in ("rejected", "not-well-defined", "rejected-other"):
            r.count(status + ":" + str(detail)[:60])
        for l in case["labels"]:
            r.count("scenario:" + l)
        c = {k: case[k] for k in ("lit", "var", "n", "tape")}
        r.case(c, status == "ok" and case["stale_possible"])
        if status == "FAIL":
            if bucket not in found or len(case["var"]) < len(found[bucket][0]["var"]):
                found[bucket] = (c, detail)

    prop()
    for bucket, (c, detail) in found.items():
        r.fail(bucket, c, "P and P' agree with CPython and with each other", detail)
    return r


def replay(case):
    if case.get("kind") == "fold":
        status, fl = eval_fold(case)
        return [fl] if fl else []
    status, bucket, detail = evaluate_pair(case)
    if status == "FAIL":
        return [{"bucket": bucket, "case": case, "expected": "P and P' agree with CPython and with each other", "observed": str(detail)}]
    return []
