"""C11 - transpiling never runs user code, has no side effects, fails only cleanly.

Inputs: (i) hostile expressions (each with a canary) in every argument/expression position of a template grammar;
(ii) arbitrary syntactically valid Python: corpus snippets mutated at line/token level; (iii) byte noise (Hypothesis
binary/text and, when atheris is installed, a coverage-guided campaign).  Oracle, evaluated in a watchdog-supervised
child process: audit hook (no exec / import / open / os / subprocess / socket events), canaries untouched, only
ValueError (SyntaxError only for text ast.parse rejects), CPU budget per case, module-level state unchanged.
"""
from __future__ import annotations

import ast
import json
import os
import re
import resource
import shutil
import signal
import sys
import tempfile
import time
import traceback

from hypothesis import Phase, given, seed as hseed, strategies as st

from vlib.runner import VERIF, Result, hyp_settings, HarnessError

ID = "C11"
LEVEL = "exploration"
RULE = (
    "(i) templates covering every device constructor/method argument, sleep, conditions, range bounds, list items, f-string fields, assignments, "
    "helper defaults/decorators, on_click, sensor=, flash_pattern and glyph arguments are filled with hostile expressions (__import__('os').system, "
    "open(..,'w'), eval/exec/compile, attribute chains, lambdas, comprehensions, walrus, 9**9**9, 1<<10**9, 'a'*10**9, int('9'*10**5), 1e400, nan) - each "
    "would create a canary file if evaluated; (ii) corpus programs (README-style scripts, stdlib-flavoured Python) mutated by line deletion/duplication/"
    "indent shifts/token swaps, kept only if ast.parse accepts them; (iii) random text/bytes decoded as UTF-8 (surrogateescape and replace), plus an atheris "
    "campaign when available. Each case runs in a supervised child: sys.addaudithook armed around parse/emit, canary check, exception type check, soft "
    "os.environ / os.getcwd replaced by recording stand-ins while a script is transpiled (any look-up is an environment access), RLIMIT_CPU advanced per case (10 s), peak-memory growth per case <= 300 MB, module-state fingerprint; one hostile case in eight is a header-stress case (block headers / calls with a 20-70 character plain or dotted name and a tail the supported form lacks: catastrophic regex backtracking), one in eight is an amplification history (seed constant + k <= 40 self-amplifying re-assignments: x = x * x, x = x ** 64, s = s + s, nested power towers left and right). Non-trivial = the input reached _eval_const/_to_c_expr (got past the regex dispatch). "
    "distinct = distinct text."
)
ASSUMPTIONS = [
    "`compile` audit events (raised by ast.parse) are indistinguishable from real compilation and are not judged; exec/eval of code objects is",
    "CPython's own open('<unknown>', 'rb') when ast.parse builds a SyntaxError is allow-listed",
    "ValueError subclasses count as ValueError; memory exhaustion is bounded by RLIMIT_AS and reported as a promptness violation",
]

CPU_PER_CASE = 10

# ------------------------------------------------------------------ hostile expressions
def hostile_pool(canary):
    c = canary.replace("\\", "/")
    return [
        f"__import__('os').system('touch {c}')", f"open('{c}', 'w')", f"eval(\"open('{c}','w')\")", f"exec(\"open('{c}','w')\")",
        f"compile(\"open('{c}','w')\", 'x', 'exec')", f"__import__('pathlib').Path('{c}').touch()", f"(lambda: open('{c}', 'w'))()",
        f"[open('{c}', 'w') for _ in range(1)]", f"(x := open('{c}', 'w'))", f"().__class__.__mro__[1].__subclasses__()", f"getattr(__builtins__, 'open')('{c}', 'w')",
        f"__import__('subprocess').run(['touch', '{c}'])", f"__import__('socket').socket()", f"__import__('os').environ.__setitem__('X', '1')",
        "9**9**9", "1<<10**9", "'a'*10**9", "int('9'*10**5)", "1e400", "float('nan')", "-1e400", "10**10**10", "2**(2**40)", "(1<<(1<<40))", "9**9**9**9", "0 ** -1", "(1 - 1) ** -2", "False ** -1", "0.0 ** -1", "0 ** -1.5", "1 // 0", "1 % 0", "1 / 0", "1.5 // 0", "2 ** -1", "(-8) ** 0.5", "(2**63)**64", "-((2**63)**40)", "(10**19)**60", "(2**63)**17 * 1.0", "float((2**63)**64)", "int(1e300) * int(1e300)",
        "[0]*10**9", "max(9**9**9, 1)", "abs(-(9**9**9))", "len('a'*10**10)", "1 if 9**9**9 else 2", "f'{9**9**9}'", "str(9**99999)",
        "x.__class__", "globals()", "locals()", "vars()", "dir()", "input()", "breakpoint()", "exit()", "quit()", "help()", "__file__", "__name__",
        "[1, 0, 1e400]", "[255, -1e999]", "[1, float('nan')]", "[1, 2, 3, 4, 5, 6, 7, 1e400]", "[9**9**9]", "(1, 1e400)", "'HC-SR04' * 10**9",
        "'~/dev/ttyACM0'", "'~root/tty'", "'$HOME/port'", "'%APPDATA%\\\\p'", "'/dev/../etc/passwd'", "'COM3; rm -rf /'", "'${PATH}'", "'~'",
        "None", "...", "b'bytes'", "1j", "{1: 2}", "{1, 2}", "(1, 2)", "[]", "''", "not x", "x if y else z", "lambda: 0", "await x", "yield", "*a", "**k",
        "a[1:2]", "a.b.c", "a()()", "a < b < c", "a is b", "a in b", "~x", "x @ y", "-x", "+x", "0x10", "0o7", "0b1", "1_000", "1e3", ".5", "5.", "'''t'''", "r'\\n'",
    ]


TEMPLATES = [
    "led = Led({H})", "led = Led(pin={H})", "led.set_brightness({H})", "led.blink({H}, {H})", "led.blink(duration_ms={H}, times={H})", "led.fade_in({H}, {H})",
    "led.flash_pattern({H})", "led.flash_pattern([1, {H}], {H})", "sleep({H})", "mon = SerialMonitor({H})", "mon.write({H})", "x = {H}", "x, y = {H}, {H}", "x += {H}",
    "if {H}:\n    led.on()", "while {H}:\n    led.on()", "for i in range({H}):\n    led.on()", "for i in range({H}, {H}):\n    pass", "items = [1, {H}, 3]", "items = [{H} for j in range({H})]",
    "mon.write(f\"v={{{H}}}\")", "def f(a={H}):\n    return a", "@{H}\ndef g():\n    return 1", "def h(a: {H}):\n    return a", "return {H}", "btn = Button({H}, on_click={H})",
    "us = Ultrasonic({H}, {H}, sensor={H})", "us = Ultrasonic(7, 8, model={H})", "pot = Potentiometer({H})", "srv = Servo({H}, min_angle={H}, max_angle={H})", "srv.write({H})",
    "srv.write_us({H})", "mot = DCMotor({H}, {H}, {H})", "mot.set_speed({H})", "mot.ramp({H}, {H})", "mot.run_for({H}, {H})", "rgb = RGBLed({H}, {H}, {H})", "rgb.set_color({H}, {H}, {H})",
    "rgb.fade({H}, {H}, {H}, {H}, {H})", "rgb.blink(1, 2, 3, times={H}, delay_ms={H})", "bz = Buzzer({H}, default_frequency={H})", "bz.play_tone({H}, {H})", "bz.beep({H}, on_ms={H}, off_ms={H}, times={H})",
    "bz.sweep({H}, {H}, duration_ms={H}, steps={H})", "bz.melody({H}, tempo={H})", "lcd = LCD(rs={H}, en=11, d4=5, d5=4, d6=3, d7=2, cols={H}, rows={H})", "lcd = LCD(i2c_addr={H})",
    "lcd.write({H}, {H}, {H})", "lcd.line({H}, {H}, align={H})", "lcd.message({H}, {H})", "lcd.glyph({H}, {H})", "lcd.glyph(0, [1, 2, 3, 4, 5, 6, 7, {H}])", "lcd.progress({H}, {H}, {H}, width={H}, label={H})",
    "lcd.animate({H}, {H}, {H}, speed_ms={H}, loop={H})", "lcd.brightness({H})", "lcd.display({H})", "pin_mode({H}, {H})", "digital_write({H}, {H})", "analog_write({H}, {H})",
    "x = digital_read({H})", "x = analog_read({H})", "target({H})", "target('COM3', upload={H})", "items.append({H})", "items.remove({H})", "x = items[{H}]", "x = len({H})",
    "pat = {H}\nled.flash_pattern(pat)", "pat = {H}\nled.flash_pattern(pat, {H})", "g = {H}\nlcd.glyph(0, g)", "m = {H}\nus = Ultrasonic(7, 8, sensor=m)",
    "d = {H}\nsleep(d)", "p = {H}\nled2 = Led(p)", "n = {H}\nfor i in range(n):\n    led.on()", "b = {H}\nled.set_brightness(b)", "t = {H}\nlcd.line(0, t)",
    "v = {H}\nw = v\nmon.write(w)", "def rec(x):\n    return rec([x])\ny = rec({H})", "def rec2(x):\n    return rec2(x + 0.5)\ny = rec2(1)",
    "def a1(x):\n    return b1(x)\ndef b1(x):\n    return a1(str(x))\nq = a1({H})", "x = " + " + ".join(["1"] * 3000), "x = " + "(" * 200 + "1" + ")" * 200, "x = " + "-" * 500 + "1",
    # user identifiers that coincide with names the transpiler uses internally or in the sketch
    "_helpers = {H}\nzz = [1, 2]\nmon.write(len(zz))", "_helpers = 5\nzz = [1, 2]\nzz.append(_helpers)\nmon.write(zz[0])", "def fh(_helpers):\n    qq = [_helpers, 1]\n    return len(qq)\nmon.write(fh(3))",
    "for _helpers in range(2):\n    zz = [1, _helpers]\n    mon.write(zz[1])", "_ctx = {H}\nzz = [1]\nmon.write(len(zz))", "_defined_functions = 1\ndef sum(a, b):\n    return a + b\nmon.write(sum(1, 2))",
    "__tmp_assign_0 = 1\na7 = 2\nb7 = 3\na7, b7 = b7, a7\nmon.write(__tmp_assign_0)", "__redu_len = 3\nmon.write(len(items))", "setup = 1\nloop = 2\nmon.write(setup + loop)", "String = 1\nmon.write(str(String))",
    "delay = 5\nsleep(delay)", "Serial = 3\nmon.write(Serial)", "__state_led = 9\nled.toggle()\nmon.write(__state_led)", "int = 3\nfloat = 2\nmon.write(int + float)", "x = 1\ndef x():\n    return 2\nmon.write(x())",
    "target('~/dev/arduino-uno')", 'target("~root/tty")', "target('$HOME/port')", 'target("%USERPROFILE%/p", upload=False)', "target('~')\nx = {H}", "target(port='~/x')",
    # import lines beyond the documented package-level form: still only text to the transpiler (nothing imported, opened or looked up)
    "from Reduino.Actuators.Led import Led\nled3 = Led(5)", "from Reduino.Sensors.Button import Button\nb3 = Button(2)", "import Reduino.Actuators.Led", "from Reduino.Actuators import *",
    "from Reduino.Nope import Thing\nt3 = Thing({H})", "from Reduino.Displays.LCD import LCD", "from Reduino.Utils.sleep import sleep\nsleep({H})", "import Reduino\nx = {H}", "from Reduino import Actuators",
    "from . import x", "from .. import y", "from Reduino.transpile import parser", "import os, sys\nx = {H}", "from os import system\nsystem({H})", "from Reduino.Actuators import Led as L\nq = L(3)",
    "import Reduino.Actuators as A\nq = A.Led(3)", "from Reduino.Sensors.Ultrasonic import Ultrasonic\nu3 = Ultrasonic(7, 8)", "from Reduino.Communication.SerialMonitor import SerialMonitor",
    "from Reduino.Actuators.DCMotor import DCMotor", "from Reduino.toolchain.pio import write_project", "from json import loads\nx = loads({H})", "import antigravity", "from Reduino.Actuators.Nope import Zip",
    # the hostile text inside a string literal (quoted annotations, names of things, texts): a string is data, never evaluated
    "def qa(a: \"{H}\"):\n    return a\ny = qa(1)", "def qr(a) -> \"{H}\":\n    return a\ny = qr(1)", "def qc(a: \"{H}\", b: \"{H}\"):\n    return a\ny = qc(1, 2)\nz = qc(1.5, 2)",
    "def qd(a: '{H}'):\n    return a + 1\nmon.write(qd(2))", "def qe(a: \"{H}\") -> \"{H}\":\n    mon.write(a)\nqe(3)", "def qf(a: \"float\", b: \"{H}\"):\n    return a * 2\nw = qf(2, 1)", "x: \"{H}\" = 1", "def qb(a: \"int\", b: \"{H}\" = 2):\n    return a",
    "mon.write(\"{H}\")", "lcd.line(0, \"{H}\")", "bz.melody(\"{H}\")", "us = Ultrasonic(7, 8, sensor=\"{H}\")", "lcd.animate(\"{H}\", 0, \"{H}\")", "target(\"{H}\")", "s = \"{H}\"\nmon.write(s)",
    "lcd.line(0, 'x', align=\"{H}\")", "lcd.progress(0, 1, 2, style=\"{H}\")", "pin_mode(\"{H}\", 1)", "pot = Potentiometer(\"{H}\")",
    # collections with a non-finite / huge member handed over by name (the by-name path has its own screening)
    "pat = [1, 0, 1e400]\nled.flash_pattern(pat)", "pat = [255, -1e999]\nled.flash_pattern(pat, {H})", "pat = [1, float('nan')]\nled.flash_pattern(pat)", "pat = [9**9**9]\nled.flash_pattern(pat)",
    "g = [1, 2, 3, 4, 5, 6, 7, 1e400]\nlcd.glyph(0, g)", "g = [1, 2, 3, 4, 5, 6, 7, (2**63)**64]\nlcd.glyph({H}, g)", "pat = [1, 0, 1e400]\nq = pat\nled.flash_pattern(q)",
    "x = abs({H})", "x = max({H}, {H})", "x = int({H})", "x = str({H})", "x = h({H})", "a, b, c = 1, {H}", "mon.write(value={H})", "x = y = {H}",
]
PRELUDE = ("from Reduino.Actuators import Led, RGBLed, Servo, DCMotor, Buzzer\nfrom Reduino.Communication import SerialMonitor\nfrom Reduino.Displays import LCD\n"
           "from Reduino.Sensors import Button, Potentiometer, Ultrasonic\nfrom Reduino.Utils import sleep\n"
           "led = Led(13)\nmon = SerialMonitor(9600)\nrgb = RGBLed(9, 10, 11)\nsrv = Servo(6)\nmot = DCMotor(2, 4, 3)\nbz = Buzzer(8)\nlcd = LCD(rs=12, en=11, d4=5, d5=4, d6=3, d7=2)\nitems = [1, 2, 3]\n")

CORPUS = [
    "import os\nimport sys\n\ndef main(argv):\n    for a in argv:\n        print(a)\n    return 0\n\nif __name__ == '__main__':\n    sys.exit(main(sys.argv))\n",
    "class Stack:\n    def __init__(self):\n        self.items = []\n    def push(self, x):\n        self.items.append(x)\n    def pop(self):\n        return self.items.pop()\n\ns = Stack()\ns.push(1)\nprint(s.pop())\n",
    "from Reduino import target\nfrom Reduino.Actuators import Led\nfrom Reduino.Utils import sleep\n\ntarget('COM3')\nled = Led(13)\nwhile True:\n    led.toggle()\n    sleep(250)\n",
    "from Reduino.Communication import SerialMonitor\nmon = SerialMonitor(9600)\ncount = 0\ndef bump(n):\n    return n + 1\nwhile True:\n    count = bump(count)\n    if count % 2 == 0:\n        mon.write(f'even {count}')\n    else:\n        mon.write('odd')\n",
    "data = {'a': 1, 'b': [1, 2, 3]}\nfor k, v in data.items():\n    try:\n        print(k, v[0])\n    except TypeError as e:\n        print(e)\n    finally:\n        pass\nwith open('f') as fh:\n    x = [l.strip() for l in fh if l]\n",
    "async def fetch(u):\n    await sleep(1)\n    return u\n\nlam = lambda *a, **k: (a, k)\nmatrix = [[i * j for j in range(3)] for i in range(3)]\nx = 1 if matrix else 2\nassert x\ndel x\nglobal_var: int = 3\n",
    "from Reduino.Actuators import Servo, Buzzer\nfrom Reduino.Sensors import Button, Ultrasonic\ns = Servo(9)\nb = Buzzer(8)\nu = Ultrasonic(7, 6)\ndef on():\n    b.beep(440)\nbtn = Button(2, on_click=on)\nwhile True:\n    d = u.measure_distance()\n    if d < 10:\n        s.write(90)\n    elif btn.is_pressed():\n        s.write(0)\n",
    "x = 5\ny = x ** 2 // 3 % 7\nz = (x << 2) | (y & 1) ^ 3\nt = not x and y or z\nw = [1, 2, 3][::-1]\nq = {**{}, 'k': (yield_ := 3)}\nprint(f'{x!r:>{y}} {z:#x}')\n",
]


# ------------------------------------------------------------------ one case (runs inside the supervised child)
_ALLOWED_EVENTS = {"compile", "object.__getattr__", "object.__setattr__", "object.__delattr__", "sys._getframe", "sys._current_frames", "builtins.id",
                   "code.__new__", "function.__new__", "sys.excepthook", "sys.unraisablehook", "gc.get_objects", "gc.get_referrers", "gc.get_referents",
                   "cpython.PyInterpreterState_New", "cpython.PyInterpreterState_Clear", "marshal.loads", "marshal.dumps"}
_state = {"armed": False, "events": []}


def _audit(event, args):
    if not _state["armed"]:
        return
    if event in _ALLOWED_EVENTS:
        return
    if event == "open":
        try:
            if str(args[0]).startswith("<") and str(args[0]).endswith(">") and args[1] in ("rb", "r"):
                return
        except Exception:
            pass
    _state["events"].append((event, repr(args)[:120]))


class _SpyEnv(dict):
    """os.environ stand-in while one script is transpiled: every look-up is a read of the host environment (HOME, USER, PATH, ...)."""

    def __init__(self, real):
        super().__init__(real)
        self.reads = []

    def __getitem__(self, k):
        self.reads.append(str(k))
        return super().__getitem__(k)

    def get(self, k, d=None):
        self.reads.append(str(k))
        return super().get(k, d)

    def __contains__(self, k):
        self.reads.append(str(k))
        return super().__contains__(k)

    def __iter__(self):
        self.reads.append("*")
        return super().__iter__()

    def items(self):
        self.reads.append("*")
        return super().items()

    def keys(self):
        self.reads.append("*")
        return super().keys()


def module_fingerprint():
    import Reduino.transpile.emitter as E
    import Reduino.transpile.parser as P

    import pickle
    import types
    import warnings

    def value(v):
        if isinstance(v, (set, frozenset)):
            return repr(sorted(map(repr, v)))
        r = repr(v)
        if " at 0x" not in r:
            return r  # containers, numbers, strings, compiled patterns, itertools.count(n), deque([...]), Counter({...}) ...
        try:
            with warnings.catch_warnings():
                warnings.simplefilter("ignore")
                return repr(pickle.dumps(v))
        except Exception:
            pass
        try:
            return repr(sorted((k, repr(x)) for k, x in vars(v).items()))
        except TypeError:
            return "opaque"

    fp = []
    for mod in (P, E):
        for k, v in sorted(vars(mod).items()):
            if k.startswith("__") or k == "_VERIF_IGNORED":
                continue
            if isinstance(v, (types.FunctionType, types.BuiltinFunctionType, types.ModuleType, type)) or callable(v):
                continue
            fp.append((mod.__name__, k, value(v)))
    return hash(tuple(fp))


def run_case(text, canary):
    """Returns dict(status, detail, reached)."""
    import Reduino.transpile.parser as P
    from Reduino.transpile.emitter import emit

    reached = {"n": 0}
    orig_eval, orig_toc = P._eval_const, P._to_c_expr

    def w_eval(expr, env):
        reached["n"] += 1
        return orig_eval(expr, env)

    def w_toc(expr, env, ctx=None):
        reached["n"] += 1
        return orig_toc(expr, env, ctx)

    P._eval_const, P._to_c_expr = w_eval, w_toc
    before = module_fingerprint()
    _state["events"] = []
    res = {"status": "ok", "detail": ""}
    real_env, real_cwd = os.environ, os.getcwd
    spy = _SpyEnv(real_env)
    m_lim = re.match(r"# verif: recursion-limit (\d+)\n", text)
    old_lim = sys.getrecursionlimit()
    base_depth = 0
    fr_ = sys._getframe()
    while fr_ is not None:
        base_depth += 1
        fr_ = fr_.f_back
    try:
        _state["armed"] = True
        os.environ = spy
        os.getcwd = lambda: (spy.reads.append("getcwd()"), real_cwd())[1]
        try:
            if m_lim:
                sys.setrecursionlimit(base_depth + int(m_lim.group(1)))
            emit(P.parse(text))
        finally:
            sys.setrecursionlimit(old_lim)
            _state["armed"] = False
            os.environ, os.getcwd = real_env, real_cwd
            for key in spy.reads:
                _state["events"].append(("environment-read", key))
    except ValueError as e:
        res = {"status": "ValueError", "detail": str(e)[:100]}
    except SyntaxError as e:
        try:
            ast.parse(text)
            valid = True
        except (SyntaxError, ValueError, MemoryError, RecursionError):
            valid = False
        if valid:
            res = {"status": "FAIL", "bucket": "internal-error:SyntaxError-on-valid-python:" + _frame(e), "detail": f"SyntaxError: {e}"[:200]}
        else:
            res = {"status": "SyntaxError", "detail": str(e)[:100]}
    except RecursionError as e:
        res = {"status": "FAIL", "bucket": "internal-error:RecursionError:" + _frame(e), "detail": "RecursionError"}
    except MemoryError as e:
        res = {"status": "FAIL", "bucket": "internal-error:MemoryError:" + _frame(e), "detail": "MemoryError"}
    except Exception as e:
        res = {"status": "FAIL", "bucket": f"internal-error:{type(e).__name__}:" + _frame(e), "detail": f"{type(e).__name__}: {e}"[:200]}
    finally:
        P._eval_const, P._to_c_expr = orig_eval, orig_toc
    res["reached"] = reached["n"] > 0
    if res["status"] != "FAIL":
        if _state["events"]:
            ev = _state["events"][0]
            res = {"status": "FAIL", "bucket": "side-effect:" + ev[0], "detail": f"audit event {ev[0]} {ev[1]}", "reached": res["reached"]}
        elif canary and os.path.exists(canary):
            res = {"status": "FAIL", "bucket": "user-code-executed", "detail": "canary file was created", "reached": res["reached"]}
        elif module_fingerprint() != before:
            res = {"status": "FAIL", "bucket": "module-state-mutated", "detail": "module-level containers changed", "reached": res["reached"]}
    if canary and os.path.exists(canary):
        try:
            os.remove(canary)
        except OSError:
            pass
    return res


def _frame(e):
    tb = traceback.extract_tb(e.__traceback__)
    for fr in reversed(tb):
        if "Reduino" in fr.filename:
            return f"{os.path.basename(fr.filename)}:{fr.name}"
    return "?"


MEM_PER_CASE_MB = 300


# ------------------------------------------------------------------ supervised execution
def supervise(cases, canary_dir):
    """Run cases (list of text) in a forked child with a per-case CPU budget; yields (index, result)."""
    results = {}
    i = 0
    n = len(cases)
    while i < n:
        r, w = os.pipe()
        pid = os.fork()
        if pid == 0:
            os.close(r)
            try:
                out = os.fdopen(w, "w", buffering=1)
                sys.addaudithook(_audit)
                try:
                    resource.setrlimit(resource.RLIMIT_AS, (4 << 30, 4 << 30))
                except Exception:
                    pass
                devnull = os.open(os.devnull, os.O_WRONLY)
                os.dup2(devnull, 2)
                # warm-up so lazy imports / caches do not alarm
                run_case("from Reduino.Actuators import Led\nled = Led(13)\nwhile True:\n    led.toggle()\nx = (\n", None)
                for j in range(i, n):
                    used = resource.getrusage(resource.RUSAGE_SELF)
                    cpu = int(used.ru_utime + used.ru_stime)
                    # soft limit only: a hard limit can never be raised again, so a per-case hard limit would end the child after the first CPU second
                    resource.setrlimit(resource.RLIMIT_CPU, (cpu + CPU_PER_CASE, resource.RLIM_INFINITY))
                    out.write(f"START {j}\n")
                    rss0 = resource.getrusage(resource.RUSAGE_SELF).ru_maxrss
                    res = run_case(cases[j], os.path.join(canary_dir, "canary"))
                    grown_mb = (resource.getrusage(resource.RUSAGE_SELF).ru_maxrss - rss0) // 1024
                    if grown_mb > MEM_PER_CASE_MB and res.get("status") != "FAIL":
                        res = {"status": "FAIL", "bucket": "not-prompt:memory", "detail": f"peak memory grew by {grown_mb} MB while transpiling one script (budget {MEM_PER_CASE_MB} MB)", "reached": True}
                    out.write("END " + json.dumps([j, res]) + "\n")
                out.close()
            finally:
                os._exit(0)
        os.close(w)
        started = None
        with os.fdopen(r, "r") as f:
            for line in f:
                if line.startswith("START "):
                    started = int(line.split()[1])
                elif line.startswith("END "):
                    j, res = json.loads(line[4:])
                    results[j] = res
                    started = None
        _, status = os.waitpid(pid, 0)
        if started is not None:
            sig = status & 0x7f
            kind = "hang-cpu-budget" if sig in (signal.SIGXCPU, signal.SIGKILL) else f"child-died-signal-{sig}" if sig else f"child-exit-{status >> 8}"
            results[started] = {"status": "FAIL", "bucket": "not-prompt:" + kind, "detail": f"transpile did not finish within {CPU_PER_CASE}s CPU / child died ({kind})", "reached": True}
            i = started + 1
        else:
            i = n
    return results


# ------------------------------------------------------------------ generators
@st.composite
def amplify_case(draw):
    """a seed constant followed by k self-amplifying re-assignments (or one nested tower): every step looks harmless, the folded value explodes"""
    k = draw(st.integers(2, 40))
    b, e = draw(st.integers(2, 9)), draw(st.sampled_from([2, 3, 8, 40, 63, 64]))
    fam = draw(st.sampled_from(["pow_hist", "sq", "fsq", "str_double", "str_aug", "str_mul", "list_double", "shift", "tower_left", "tower_right", "mixed", "fstr_double", "fstr_mixed", "str_conv", "helper_chain", "helper_chain"]))
    if fam == "pow_hist":
        lines = [f"x = {b} ** {e}"] + [f"x = x ** {draw(st.sampled_from([2, 8, 64]))}"] * min(k, 8)
    elif fam == "sq":
        lines = [f"x = {b}"] + ["x = x * x"] * k
    elif fam == "fsq":
        lines = ["x = 1.5"] + ["x = x * x"] * k
    elif fam == "str_double":
        lines = ["x = 'ab'"] + ["x = x + x"] * k
    elif fam == "str_aug":
        lines = ["x = 'ab'"] + ["x += x"] * k
    elif fam == "fstr_double":
        lines = ["x = 'ab'"] + [draw(st.sampled_from(['x = f"{x}{x}"', 'x = f"{x}-{x}"', 'x = f"<{x}{x}{x}>"']))] * k
    elif fam == "fstr_mixed":
        lines = ["x = 'ab'"] + ['x = x + f"{x}"', 'x += f"{x}!"'] * min(k, 20)
    elif fam == "str_conv":
        lines = ["x = 'ab'"] + ["x = str(x) + str(x)"] * k
    elif fam == "helper_chain":
        # a chain of k helpers, each re-typing its parameter and calling the next one two or three times: the work per helper must not multiply
        depth = draw(st.integers(8, 30))
        retype = draw(st.sampled_from(["n = n / 2", "n = n * 0.5", "n = n + 0.5", "n = float(n)", "m = n"]))
        calls = draw(st.sampled_from(["{f}(1) + {f}(2)", "{f}(1) + {f}(1)", "{f}(n) + {f}(3)", "{f}(1) + {f}(2) + {f}(3)", "{f}({f}(1))"]))
        lines = []
        for i in range(depth, 0, -1) if draw(st.booleans()) else range(1, depth + 1):
            lines += [f"def hc{i}(n):", f"    {retype}", "    return " + (calls.format(f=f"hc{i + 1}") if i < depth else "n")]
        lines.append("x = hc1(4)")
        return PRELUDE + "\n".join(lines) + "\nmon.write(x)\n"
    elif fam == "str_mul":
        lines = ["x = 'ab'"] + [f"x = x * {draw(st.sampled_from([2, 10, 1000]))}"] * min(k, 12)
    elif fam == "list_double":
        lines = ["x = [1, 2]"] + ["x = x + x"] * k
    elif fam == "shift":
        lines = [f"x = {b}"] + ["x = x << x"] * min(k, 6)
    elif fam == "tower_left":
        t = f"{b} ** {e}"
        for _ in range(draw(st.integers(2, 7))):
            t = f"({t}) ** {draw(st.sampled_from([2, 8, 64]))}"
        lines = [f"x = {t}"]
    elif fam == "tower_right":
        t = str(e)
        for _ in range(draw(st.integers(2, 5))):
            t = f"{draw(st.sampled_from([2, 3, 9]))} ** ({t})"
        lines = [f"x = {t}"]
    else:
        lines = ["x = 'ab'", "y = 3"] + ["x = x + x", "y = y * y", "x = x + str(y)"] * min(k, 14)
    use = draw(st.sampled_from(["sleep(x)", "mon.write(x)", "led.blink(x, 2)", "mon.write(len(x))", "led = Led(x)", "y9 = x", "lcd.line(0, x)", "if x:\n    led.on()",
                                  "bz.play_tone(x, 1)", "bz.play_tone(440, x)", "mot.set_speed(x)", "srv9 = Servo(5, min_angle=x)", "bz.melody('siren', tempo=x)", "mot.ramp(x, x)", "srv.write(x)",
                                  "rgb.fade(1, 2, 3, x, x)", "lcd.progress(0, x, x)", "bz.sweep(x, x, duration_ms=x, steps=x)", "us9 = Ultrasonic(7, 8)\nmon.write(us9.measure_distance() + x)"]))
    place = draw(st.sampled_from(["top", "loop", "func"]))
    body = lines + use.split("\n")
    if place == "loop":
        body = ["while True:"] + ["    " + ln for ln in body]
    elif place == "func":
        body = ["def grow(p):"] + ["    " + ln for ln in body] + ["    return p"]
    return PRELUDE + "\n".join(body) + "\n"


@st.composite
def header_stress_case(draw):
    """block headers and calls the line-based recognisers almost accept: a long (dotted) name followed by a tail the supported form does not
    have - the shape on which a regular expression with nested repetition backtracks exponentially"""
    n = draw(st.integers(20, 70))
    kind = draw(st.sampled_from(["plain", "dotted", "under", "digits"]))
    if kind == "plain":
        name = "a" * n
    elif kind == "dotted":
        name = ".".join(["seg" + "x" * draw(st.integers(1, 6)) for _ in range(max(2, n // 6))])
    elif kind == "under":
        name = "_".join(["ab"] * (n // 3))
    else:
        name = "v" + "1" * n
    tail = draw(st.sampled_from(["", " as e", " if strict else Exception", " or Other", ", e", " as", "  as  e  ", "()", " as e as f", " !", " .", "..", " :", "\t#c"]))
    form = draw(st.sampled_from(["except", "except", "elif", "if", "while", "for", "def", "call", "target", "import", "with", "assign"]))
    body = {
        "except": f"try:\n    led.on()\nexcept {name}{tail}:\n    led.off()",
        "elif": f"if x > 1:\n    led.on()\nelif {name}{tail}:\n    led.off()",
        "if": f"if {name}{tail}:\n    led.on()",
        "while": f"while {name}{tail}:\n    led.on()",
        "for": f"for {name} in range(3){tail}:\n    led.on()",
        "def": f"def {name}({name}x{tail}):\n    return 1",
        "call": f"led.blink({name}{tail}, {name})",
        "target": f"target('{name}'{tail})",
        "import": f"from {name} import {name}{tail}",
        "with": f"with {name}{tail}:\n    led.on()",
        "assign": f"{name}{tail} = {name}",
    }[form]
    return PRELUDE + "x = 2\n" + body + "\n"


@st.composite
def deep_nesting_case(draw):
    """blocks nested 30 ... 2600 levels deep (one space of indentation per level), one or several header kinds, optionally inside the main loop or a
    helper: every stage (line parser, emitter) recurses per level, and each must end in firmware or ValueError"""
    # the interpreter's recursion limit is part of the environment (an embedding application may leave far less than the default 1000 frames); a
    # lowered limit keeps these inputs small: n levels cost n*n/2 characters of indentation
    limit = draw(st.sampled_from([100, 150, 220]))
    n = draw(st.integers(limit // 3, int(2.2 * limit)))
    kinds = draw(st.lists(st.sampled_from(["if x > 0:", "while x > 0:", "for i in range(2):", "if led.get_state():", "else_chain"]), min_size=1, max_size=3))
    lines = []
    outer = draw(st.sampled_from(["top", "loop", "func"]))
    base = 0
    if outer == "loop":
        lines.append("while True:"); base = 1
    elif outer == "func":
        lines.append("def deep(p):"); base = 1
    for i in range(n):
        k = kinds[i % len(kinds)]
        ind = " " * (base + i)
        if k == "else_chain":
            lines += [ind + "if x > 1:", ind + " led.off()", ind + "else:"]
        else:
            lines.append(ind + k)
    lines.append(" " * (base + n) + draw(st.sampled_from(["led.on()", "x = x + 1", "mon.write(x)", "pass", "sleep(1)"])))
    if outer == "func":
        lines += [" return p", "deep(1)"]
    return f"# verif: recursion-limit {limit}\n" + PRELUDE + "x = 2\n" + "\n".join(lines) + "\n"


@st.composite
def hostile_case(draw):
    pick = draw(st.integers(0, 15))
    if pick in (0, 1):
        return draw(amplify_case())
    if pick in (2, 3):
        return draw(header_stress_case())
    if pick == 4:
        return draw(deep_nesting_case())
    tmpl = draw(st.sampled_from(TEMPLATES))
    pool = hostile_pool("CANARY_PATH")
    safe_fill = ["1", "13", "x", "'s'", "True", "[1, 0]", "led"]
    n = tmpl.count("{H}")
    hot = draw(st.integers(0, max(0, n - 1)))
    fills = []
    # positions that take a list (patterns, glyph bitmaps, melodies) get list-valued hostile values half of the time
    listy = [v for v in pool if v.startswith(("[", "("))] + ["[1, 0, 1e999, 2]", "[0, 1, -1e400]", "[float('inf'), 1]", "[1, 2, 3, 4, 5, 6, 7, float('nan')]", "[[1], 2]", "[1, 'a']", "[None]", "[1] * 10**9"]
    wants_list = any(w in tmpl for w in ("pat = {H}", "flash_pattern({H}", "g = {H}", "glyph({H}, {H})", "melody({H}", "items = "))
    for k in range(n):
        src_pool = listy if (wants_list and draw(st.booleans())) else pool
        fills.append(draw(st.sampled_from(src_pool)) if k == hot or draw(st.integers(0, 3)) == 0 else draw(st.sampled_from(safe_fill)))
    text = tmpl
    for f in fills:
        text = text.replace("{H}", f, 1)
    place = draw(st.sampled_from(["top", "loop", "func", "if"]))
    body = text.split("\n")
    if place == "loop":
        body = ["while True:"] + ["    " + b for b in body]
    elif place == "func":
        body = ["def wrapper(p):"] + ["    " + b for b in body] + ["    return p"]
    elif place == "if":
        body = ["if 1:"] + ["    " + b for b in body]
    return PRELUDE + "\n".join(body) + "\n"


@st.composite
def mutated_corpus(draw):
    src = draw(st.sampled_from(CORPUS))
    lines = src.split("\n")
    for _ in range(draw(st.integers(0, 4))):
        op = draw(st.sampled_from(["del", "dup", "indent", "dedent", "swap", "splice", "tok"]))
        if not lines:
            break
        i = draw(st.integers(0, len(lines) - 1))
        if op == "del":
            del lines[i]
        elif op == "dup":
            lines.insert(i, lines[i])
        elif op == "indent":
            lines[i] = "    " + lines[i]
        elif op == "dedent":
            lines[i] = lines[i][4:] if lines[i].startswith("    ") else lines[i]
        elif op == "swap" and len(lines) > 1:
            j = draw(st.integers(0, len(lines) - 1))
            lines[i], lines[j] = lines[j], lines[i]
        elif op == "splice":
            other = draw(st.sampled_from(CORPUS)).split("\n")
            lines[i:i] = other[: draw(st.integers(1, 4))]
        else:
            toks = lines[i].split(" ")
            if len(toks) > 1:
                k = draw(st.integers(0, len(toks) - 1))
                toks[k] = draw(st.sampled_from(["(", ")", ":", "=", "while", "True", "led.on()", "#", "'", "\\", "target(", "def", "1", "x", ","]))
                lines[i] = " ".join(toks)
    return "\n".join(lines) + "\n"


noise = st.one_of(
    st.text(max_size=200),
    st.text(alphabet=" \t\n():=#'\"\\.,[]{}abcdefwhiltrueTLsep0123456789_+-*/%<>!", max_size=300),
    st.binary(max_size=200).map(lambda b: b.decode("utf-8", "surrogateescape")),
    st.binary(max_size=200).map(lambda b: b.decode("utf-8", "replace")),
)


def plan(tier):
    q = tier == "quick"
    units = [(f"hostile-{i}", {"what": "hostile", "n": 800 if q else 12000}) for i in range(6)]
    units += [(f"corpus-{i}", {"what": "corpus", "n": 300 if q else 8000}) for i in range(4)]
    units += [(f"noise-{i}", {"what": "noise", "n": 400 if q else 12000}) for i in range(4)]
    units += [(f"atheris-{i}", {"what": "atheris", "n": 15 if q else 600}) for i in range(2 if q else 8)]
    return units


def run_shard(name, seed, tier, what, n):
    r = Result()
    if what == "atheris":
        return run_atheris(name, seed, n, r)
    strat = {"hostile": hostile_case(), "corpus": mutated_corpus(), "noise": noise}[what]
    cases = []

    @hseed(seed)
    @hyp_settings(n, phases=(Phase.generate,))
    @given(strat)
    def collect(text):
        cases.append(text)

    collect()
    cases = list(dict.fromkeys(cases))
    cdir = tempfile.mkdtemp(prefix="c11-", dir=os.path.join(VERIF, ".work") if os.path.isdir(os.path.join(VERIF, ".work")) else None)
    try:
        canary = os.path.join(cdir, "canary")
        cases = [c.replace("CANARY_PATH", canary) for c in cases]
        results = supervise(cases, cdir)
    finally:
        shutil.rmtree(cdir, ignore_errors=True)
    found = {}
    for i, text in enumerate(cases):
        if i not in results:
            raise HarnessError(f"C11 supervisor lost case {i} of {len(cases)} (child ended without reporting it)")
        res = results[i]
        r.count(f"{what}:{res['status']}")
        r.case({"text": text} if len(r.samples) < 1 else {"h": hash(text) & 0xffffffff}, bool(res.get("reached")))
        if res["status"] == "FAIL":
            b = res["bucket"]
            if b not in found or len(text) < len(found[b]["case"]["text"]):
                found[b] = {"bucket": b, "case": {"text": text}, "expected": "returns firmware or raises ValueError (SyntaxError for non-Python), promptly, without side effects", "observed": res["detail"]}
    # minimise each bucket by deleting lines
    for b, fl in found.items():
        fl["case"]["text"] = minimise(fl["case"]["text"], b)
    r.failures = list(found.values())
    return r


def minimise(text, bucket, max_rounds=40):
    lines = text.split("\n")
    cdir = tempfile.mkdtemp(prefix="c11m-")
    try:
        i = 1 if lines and lines[0].startswith("# verif: recursion-limit") else 0   # the environment marker is part of the case
        rounds = 0
        while i < len(lines) and rounds < max_rounds:
            cand = lines[:i] + lines[i + 1:]
            rounds += 1
            res = supervise(["\n".join(cand)], cdir).get(0, {})
            if res.get("status") == "FAIL" and res.get("bucket") == bucket:
                lines = cand
            else:
                i += 1
    finally:
        shutil.rmtree(cdir, ignore_errors=True)
    return "\n".join(lines)


def run_atheris(name, seed, seconds, r):
    """Coverage-guided byte noise; runs tools/atheris_target.py as a subprocess for a fixed number of executions (800 per budgeted second; wall-clock cap 4x)."""
    import subprocess

    deps = os.path.join(VERIF, ".deps")
    tgt = os.path.join(VERIF, "tools", "atheris_target.py")
    env = dict(os.environ, PYTHONPATH=f"{VERIF}:{deps}")
    probe = subprocess.run(["/venv/bin/python", "-c", "import atheris"], env=env, capture_output=True)
    if probe.returncode != 0:
        r.count("atheris_unavailable")
        return r
    work = tempfile.mkdtemp(prefix="c11a-", dir=os.path.join(VERIF, ".work") if os.path.isdir(os.path.join(VERIF, ".work")) else None)
    try:
        corpus = os.path.join(work, "corpus")
        os.makedirs(corpus)
        if name.endswith("1") or name.endswith("3") or name.endswith("5"):
            for k, c in enumerate(CORPUS):
                with open(os.path.join(corpus, f"s{k}"), "w") as f:
                    f.write(c)
        out = os.path.join(work, "findings.jsonl")
        cmd = ["/venv/bin/python", tgt, corpus, f"-runs={seconds * 800}", f"-max_total_time={seconds * 4}", f"-seed={seed % (2**31 - 1) + 1}", "-max_len=400", "-timeout=20", f"-artifact_prefix={work}/", "-print_final_stats=1"]
        p = subprocess.run(cmd, env=dict(env, C11_FINDINGS=out), capture_output=True, text=True, timeout=seconds * 4 + 120)
        execs = 0
        for ln in p.stderr.splitlines():
            if "stat::number_of_executed_units" in ln:
                execs = int(ln.split()[-1])
        r.evaluations += execs
        r.nontrivial_enum += execs // 2 if execs else 0  # conservative: the target reports 'reached' only in aggregate
        r.count("atheris_executions", execs)
        seen = {}
        if os.path.exists(out):
            for ln in open(out):
                d = json.loads(ln)
                if d["bucket"] not in seen:
                    seen[d["bucket"]] = d
        for art in os.listdir(work):
            if art.startswith(("timeout-", "crash-", "oom-")):
                data = open(os.path.join(work, art), "rb").read().decode("utf-8", "surrogateescape")
                kind = art.split("-")[0]
                seen.setdefault(f"not-prompt:atheris-{kind}", {"bucket": f"not-prompt:atheris-{kind}", "text": data, "detail": f"libFuzzer {kind} artifact"})
        for b, d in seen.items():
            r.failures.append({"bucket": b, "case": {"text": d["text"]}, "expected": "clean outcome", "observed": d["detail"]})
    finally:
        shutil.rmtree(work, ignore_errors=True)
    return r


def replay(case):
    cdir = tempfile.mkdtemp(prefix="c11r-")
    try:
        res = supervise([case["text"].replace("CANARY_PATH", os.path.join(cdir, "canary"))], cdir).get(0, {})
    finally:
        shutil.rmtree(cdir, ignore_errors=True)
    if res.get("status") == "FAIL":
        return [{"bucket": res["bucket"], "case": case, "expected": "clean outcome", "observed": res["detail"]}]
    return []
