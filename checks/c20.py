"""C20 - host sensor / Core pin / timing / serial helpers are faithful small models."""
from __future__ import annotations

import importlib
import math
import sys
import types
from fractions import Fraction

from hypothesis import given, seed as hseed, strategies as st

from vlib.runner import Result, hyp_settings

ID = "C20"
LEVEL = "exploration"
RULE = (
    "core: Hypothesis op lists over pin_mode/digital_write/analog_write/digital_read/analog_read on pins 0..19, their "
    "str forms and 'A0'..'A5', compared step by step with a dict model written from the statement (module reloaded per "
    "case); map: ints/floats incl. reversed ranges against exact rational arithmetic with a forward-error bound, plus "
    "ValueError iff zero-width; sleep: injected sleep_func and patched time.sleep; button: level sequences over any truthiness carrier (bool, 0/1/2/255/-1, "
    "floats, strings, None) delivered by a provider or by set_pressed with 0-3 further level changes between two polls (only the level at a poll is a sample); "
    "pot/ultrasonic: provider sequences; serial: fake pyserial backend. Non-trivial = core history touching >=2 pins with both int and str "
    "names and a read after a write; map with reversed or float range; provider sequence with an out-of-range value or "
    ">=2 rising edges; serial write of a non-str value with a connected port. distinct = distinct case."
)
ASSUMPTIONS = [
    "analog_write arguments are finite numbers; result must be the 0-255 clamp of the value to within rounding (0.5)",
    "Utils.map is compared with the exact rational affine map under a 16-ulp forward error bound (no overflow/underflow in the generated domain)",
    "digital and analogue values of a pin are separate stores (the least demanding reading of 'last value written')",
    "a Button whose first sample is already pressed may or may not count that as an edge (both accepted)",
    "the signal a Button sees is the sequence of levels present at its is_pressed() calls; a level is pressed iff it is truthy",
]

PINS_INT = list(range(0, 20))
pin_st = st.one_of(st.sampled_from(PINS_INT), st.sampled_from(PINS_INT).map(str), st.sampled_from([f"A{i}" for i in range(6)]),
                   st.sampled_from([7, "7", 13, "13", 0, "0", "A0", 1, "1", 10, "10", "07"]))
MODES = ["INPUT", "OUTPUT", "INPUT_PULLUP"]
dval = st.one_of(st.sampled_from([0, 1, True, False, 2, -1, 255, 0.0, 0.5, 1.0]), st.integers(-3, 3))
aval = st.one_of(st.sampled_from([0, 1, 127, 128, 254, 255, 256, 300, 1023, -1, -300, 0.4, 0.5, 1.5, 2.5, 254.5, 255.4, 255.6, True, False, 1e6, -1e6]),
                 st.integers(-400, 1200), st.floats(-300, 600, allow_nan=False))


def op(name, **kw):
    return st.fixed_dictionaries({"op": st.just(name), **kw})


CORE_OPS = st.one_of(
    op("pin_mode", pin=pin_st, mode=st.sampled_from(MODES)),
    op("digital_write", pin=pin_st, value=dval),
    op("analog_write", pin=pin_st, value=aval),
    op("digital_read", pin=pin_st),
    op("analog_read", pin=pin_st),
)


def norm_pin(p):
    return int(p) if isinstance(p, str) and p.isdigit() else p


def fresh_core():
    import Reduino.Core as C

    return importlib.reload(C)


def eval_core(ops):
    C = fresh_core()
    dig, ana, mode = {}, {}, {}
    fails = []
    pins_seen = set()
    read_after_write = False

    def check_all(where):
        # non-interference: every pin ever touched reads what the model says
        for k in set(dig) | set(ana) | set(mode):
            wd = dig[k] if k in dig else (1 if mode.get(k) == "INPUT_PULLUP" else 0)
            gd = C.digital_read(k)
            if gd != wd:
                fails.append(("core-digital-read", f"pin {k!r} reads {wd}", f"{gd} after {where}"))
            if k in ana:
                lo, hi, exact = ana[k]
                ga = C.analog_read(k)
                if not (isinstance(ga, int) and 0 <= ga <= 255 and lo <= ga <= hi):
                    fails.append(("core-analog-read", f"pin {k!r} reads int in [{lo},{hi}] (clamp of {exact})", f"{ga!r} after {where}"))
            else:
                ga = C.analog_read(k)
                if ga != 0:
                    fails.append(("core-analog-unwritten", f"pin {k!r} reads 0", f"{ga!r} after {where}"))

    for i, o in enumerate(ops):
        k = norm_pin(o["pin"])
        pins_seen.add(repr(o["pin"]))
        name = o["op"]
        if name == "pin_mode":
            C.pin_mode(o["pin"], getattr(C, o["mode"]))
            mode[k] = o["mode"]
        elif name == "digital_write":
            C.digital_write(o["pin"], o["value"])
            dig[k] = 1 if o["value"] else 0
        elif name == "analog_write":
            C.analog_write(o["pin"], o["value"])
            v = float(o["value"])
            c = min(255.0, max(0.0, v))
            ana[k] = (math.ceil(c - 0.5), math.floor(c + 0.5), c)
        elif name == "digital_read":
            g = C.digital_read(o["pin"])
            w = dig[k] if k in dig else (1 if mode.get(k) == "INPUT_PULLUP" else 0)
            if k in dig:
                read_after_write = True
            if g != w or not isinstance(g, int):
                fails.append(("core-digital-read", f"pin {o['pin']!r} reads {w}", f"{g!r} at step {i}"))
        elif name == "analog_read":
            g = C.analog_read(o["pin"])
            if k in ana:
                read_after_write = True
                lo, hi, exact = ana[k]
                if not (isinstance(g, int) and lo <= g <= hi and 0 <= g <= 255):
                    fails.append(("core-analog-read", f"pin {o['pin']!r} reads int in [{lo},{hi}]", f"{g!r} at step {i}"))
            elif g != 0:
                fails.append(("core-analog-unwritten", "0", f"{g!r} at step {i}"))
        if fails:
            break
        check_all(f"step {i} {o}")
        if fails:
            break
    kinds = {type(norm_pin(eval(p))) for p in pins_seen}
    has_both = any(p.startswith("'") for p in pins_seen) and any(not p.startswith("'") for p in pins_seen)
    nt = len({repr(norm_pin(eval(p))) for p in pins_seen}) >= 2 and has_both and read_after_write
    return [{"bucket": b, "case": {"kind": "core", "ops": ops}, "expected": e, "observed": ob} for b, e, ob in fails[:1]], nt


# ------------------------------------------------------------------ map / sleep
def _mag(x):
    return x == 0 or 1e-6 <= abs(x) <= 1e9


fnum = st.one_of(st.integers(-1000, 1000), st.integers(-10**6, 10**6), st.floats(-1e9, 1e9, allow_nan=False).filter(_mag),
                 st.sampled_from([0, 1, -1, 0.1, 0.2, 0.3, 1023, 255, 180, 5.0, 3.3, 1e9, -1e9, 0.0, -0.0, 1e-6]))


def eval_map(args):
    from Reduino.Utils import map as rmap

    v, fl, fh, tl, th = args
    case = {"kind": "map", "args": list(args)}
    try:
        got = rmap(v, fl, fh, tl, th)
        err = None
    except ValueError as e:
        got, err = None, e
    except Exception as e:
        return [{"bucket": "map-wrong-exception", "case": case, "expected": "value or ValueError", "observed": repr(e)}]
    if fl == fh:
        if err is None:
            return [{"bucket": "map-accepts-zero-span", "case": case, "expected": "ValueError", "observed": repr(got)}]
        return []
    if err is not None:
        return [{"bucket": "map-rejects-valid-range", "case": case, "expected": "a value", "observed": repr(err)}]
    F = Fraction
    r = (F(v) - F(fl)) / (F(fh) - F(fl))
    exact = F(tl) + r * (F(th) - F(tl))
    bound = F(16, 2**53) * (abs(F(tl)) + abs(r) * abs(F(th) - F(tl)) + abs(exact)) + F(1, 10**300)
    if not isinstance(got, (int, float)) or isinstance(got, bool) or abs(F(got) - exact) > bound:
        return [{"bucket": "map-not-affine", "case": case, "expected": f"{float(exact)!r} +- {float(bound):.3g}", "observed": repr(got)}]
    return []


def eval_sleep(ms, mode):
    import time as _time

    import Reduino.Utils as U

    calls = []
    case = {"kind": "sleep", "ms": ms, "mode": mode}
    orig = _time.sleep
    try:
        if mode == "inject":
            try:
                U.sleep(ms, sleep_func=lambda s: calls.append(s))
                err = None
            except ValueError as e:
                err = e
        else:
            _time.sleep = lambda s: calls.append(s)
            try:
                U.sleep(ms)
                err = None
            except ValueError as e:
                err = e
            finally:
                _time.sleep = orig
    except Exception as e:
        return [{"bucket": "sleep-wrong-exception", "case": case, "expected": "None or ValueError", "observed": repr(e)}]
    finally:
        _time.sleep = orig
    if ms < 0:
        if err is None or calls:
            return [{"bucket": "sleep-accepts-negative", "case": case, "expected": "ValueError, zero calls", "observed": f"err={err!r} calls={calls}"}]
        return []
    if err is not None:
        return [{"bucket": "sleep-rejects-valid", "case": case, "expected": "one call", "observed": repr(err)}]
    want = float(ms) / 1000.0
    if len(calls) != 1 or calls[0] != want:
        return [{"bucket": "sleep-wrong-wait", "case": case, "expected": f"[{want!r}]", "observed": repr(calls)}]
    return []


# ------------------------------------------------------------------ sensors
def eval_button(seq, use_provider, with_cb, gaps=None):
    """seq: provided values (any truthiness carrier); gaps[i] (set_pressed mode): levels set *before* seq[i] without a poll in between -
    only the level present at a poll is a sample of the signal."""
    from Reduino.Sensors import Button

    case = {"kind": "button", "seq": seq, "use_provider": use_provider, "with_cb": with_cb, "gaps": gaps}
    clicks = []
    it = iter(seq)
    kw = {}
    if with_cb:
        kw["on_click"] = lambda: clicks.append(1)
    if use_provider:
        kw["state_provider"] = lambda: next(it)
    b = Button(4, **kw)
    out = []
    per_step = []
    for i, s in enumerate(seq):
        if not use_provider:
            for g in (gaps[i] if gaps and i < len(gaps) else []):
                b.set_pressed(g)
            b.set_pressed(s)
        n0 = len(clicks)
        out.append(b.is_pressed())
        per_step.append(len(clicks) - n0)
    lv = [1 if s else 0 for s in seq]
    fails = []
    if out != lv or any(type(o) is not int for o in out):
        fails.append(("button-return-value", lv, out))
    if with_cb:
        want_steps = [1 if (i > 0 and lv[i] and not lv[i - 1]) else 0 for i in range(len(lv))]
        for i in range(len(lv)):
            if i == 0 and lv[0]:
                ok = per_step[0] in (0, 1)
            else:
                ok = per_step[i] == want_steps[i]
            if not ok:
                fails.append(("button-click-count", f"clicks per sample {want_steps}", per_step))
                break
    return [{"bucket": b_, "case": case, "expected": str(e), "observed": str(o)} for b_, e, o in fails]


def eval_pot(seq, pin):
    from Reduino.Sensors import Potentiometer

    case = {"kind": "pot", "seq": seq, "pin": pin}
    it = iter(seq)
    p = Potentiometer(pin, value_provider=lambda: next(it))
    for i, v in enumerate(seq):
        try:
            g = p.read()
            err = None
        except ValueError as e:
            g, err = None, e
        except Exception as e:
            return [{"bucket": "pot-wrong-exception", "case": case, "expected": "value or ValueError", "observed": repr(e)}]
        inr = 0 <= v <= 1023
        if inr and (err is not None or g != v or not isinstance(g, int)):
            return [{"bucket": "pot-read", "case": case, "expected": f"{v} at {i}", "observed": f"{g!r} {err!r}"}]
        if not inr and err is None:
            return [{"bucket": "pot-accepts-out-of-range", "case": case, "expected": f"ValueError for {v}", "observed": repr(g)}]
    if Potentiometer(pin).read() != 0:
        return [{"bucket": "pot-default", "case": case, "expected": 0, "observed": "non-zero"}]
    return []


def eval_ultra(seq, how):
    from Reduino.Sensors import Ultrasonic

    case = {"kind": "ultra", "seq": seq, "how": how}
    it = iter(seq)
    kw = {}
    if how.get("sensor"):
        kw[how["key"]] = how["sensor"]
    if how.get("default") is not None:
        kw["default_distance"] = how["default"]   # only used without a provider: a provider's 0 is a reading, not a missing value
    u = Ultrasonic(7, 8, distance_provider=lambda: next(it), **kw)
    if how.get("default") is not None:
        d0 = Ultrasonic(7, 8, default_distance=how["default"]).measure_distance()
        if d0 != float(how["default"]):
            return [{"bucket": "ultra-default-distance", "case": case, "expected": f"{float(how['default'])} without a provider", "observed": repr(d0)}]
    for i, v in enumerate(seq):
        try:
            g = u.measure_distance()
            err = None
        except ValueError as e:
            g, err = None, e
        except Exception as e:
            return [{"bucket": "ultra-wrong-exception", "case": case, "expected": "value or ValueError", "observed": repr(e)}]
        if v >= 0 and (err is not None or g != float(v) or not isinstance(g, float)):
            return [{"bucket": "ultra-read", "case": case, "expected": f"{float(v)} at {i}", "observed": f"{g!r} {err!r}"}]
        if v < 0 and err is None:
            return [{"bucket": "ultra-accepts-negative", "case": case, "expected": f"ValueError for {v}", "observed": repr(g)}]
    return []


# ------------------------------------------------------------------ serial
class _FakeSerial:
    instances = []

    def __init__(self, port=None, baudrate=None, timeout=None):
        self.port, self.baudrate, self.timeout = port, baudrate, timeout
        self.is_open = True
        self.written = []
        _FakeSerial.instances.append(self)

    def write(self, payload):
        self.written.append(payload)
        return len(payload)

    def close(self):
        self.is_open = False

    def readline(self):
        return b""


def eval_serial(values, newline, connect, baud):
    import Reduino.Communication as Comm
    from Reduino.Communication import SerialMonitor

    case = {"kind": "serial", "values": values, "newline": newline, "connect": connect, "baud": baud}
    fake = types.SimpleNamespace(Serial=_FakeSerial)
    orig = getattr(Comm, "serial", None)
    Comm.serial = fake
    _FakeSerial.instances = []
    fails = []
    try:
        kw = {}
        if newline is not None:
            kw["newline"] = newline
        nl = "\n" if newline is None else newline
        if connect == "ctor":
            mon = SerialMonitor(baud, port="/dev/fake", **kw)
        else:
            mon = SerialMonitor(baud, **kw)
            if connect == "connect":
                mon.connect("/dev/fake")
        want_payload = []
        for i, v in enumerate(values):
            if connect == "close-midway" and i == 0:
                mon.connect("/dev/fake")
            if connect == "close-midway" and i == len(values) // 2 + 1:
                mon.close()
            g = mon.write(v)
            if g != str(v) or type(g) is not str:
                fails.append(("serial-return", repr(str(v)), repr(g)))
                break
            open_now = connect in ("ctor", "connect") or (connect == "close-midway" and i < len(values) // 2 + 1)
            if open_now:
                want_payload.append((str(v) + nl).encode("utf-8"))
        got = [p for inst in _FakeSerial.instances for p in inst.written]
        if not fails and got != want_payload:
            fails.append(("serial-payload", want_payload, got))
        if _FakeSerial.instances and _FakeSerial.instances[0].baudrate != int(baud):
            fails.append(("serial-baud", baud, _FakeSerial.instances[0].baudrate))
    finally:
        Comm.serial = orig
    return [{"bucket": b, "case": case, "expected": str(e), "observed": str(o)} for b, e, o in fails]


sval = st.one_of(st.integers(-10**6, 10**6), st.floats(allow_nan=False, allow_infinity=False), st.booleans(), st.none(),
                 st.text(max_size=12, alphabet=st.characters(blacklist_categories=("Cs",))), st.lists(st.integers(0, 9), max_size=3),
                 st.sampled_from(["", "\n", "a\r\n", "é", 0, -0.0, 1e21, 1.5e-7]))


def plan(tier):
    q = tier == "quick"
    units = [(f"core-{i}", {"what": "core", "n": 250 if q else 12000}) for i in range(6)]
    units += [(f"map-{i}", {"what": "map", "n": 1500 if q else 60000}) for i in range(3)]
    units += [("sleep", {"what": "sleep", "n": 1500 if q else 40000})]
    units += [(f"sensors-{i}", {"what": "sensors", "n": 400 if q else 15000}) for i in range(3)]
    units += [(f"serial-{i}", {"what": "serial", "n": 400 if q else 15000}) for i in range(3)]
    return units


def run_shard(name, seed, tier, what, n):
    r = Result()
    last = {}

    def record(fails):
        for fl in fails:
            last[fl["bucket"]] = fl
        if fails:
            raise AssertionError(fails[0]["bucket"])

    if what == "core":
        @hseed(seed)
        @hyp_settings(n)
        @given(st.lists(CORE_OPS, min_size=1, max_size=25 if tier == "quick" else 50))
        def prop(ops):
            fails, nt = eval_core(ops)
            r.case({"kind": "core", "ops": ops}, nt)
            if any(o["op"] == "pin_mode" for o in ops):
                r.count("core:with_pin_mode")
            record(fails)
    elif what == "map":
        @hseed(seed)
        @hyp_settings(n)
        @given(st.tuples(fnum, fnum, fnum, fnum, fnum), st.integers(0, 9),
               st.tuples(st.sampled_from([10**9, -10**9, 1_700_000_000_000, 2**40, 1e9, -1e9, 123456789.0, 1e12, 4_000_000, 86_400_000.0]),
                         st.sampled_from([1, -1, 2, 500, 7, 0.5, -0.25, 1000, 3]), st.integers(-3, 4)))
        def prop(args, degenerate, narrow):
            if degenerate in (2, 3):
                # a narrow source range far from zero (timestamps, large counters): different endpoints, so a valid range
                base, delta, k = narrow
                if base + delta != base:
                    args = (base + (delta * k if degenerate == 2 else delta / 2), base, base + delta, args[3], args[4])
                    r.count("map:narrow_far_range")
            if degenerate == 0:
                args = (args[0], args[1], args[1], args[3], args[4])
            elif degenerate == 1:
                args = (args[0], args[1], float(args[1]), args[3], args[4])
            fails = eval_map(args)
            nt = args[1] != args[2] and (args[1] > args[2] or args[3] > args[4] or any(isinstance(a, float) for a in args))
            r.case({"kind": "map", "args": list(args)}, nt)
            if args[1] == args[2]:
                r.count("map:zero_span")
            if args[1] > args[2]:
                r.count("map:reversed_source")
            record(fails)
    elif what == "sleep":
        msv = st.one_of(st.integers(-5, 5000), st.floats(-10, 1e6, allow_nan=False), st.floats(min_value=-1e3, allow_nan=False, allow_infinity=False), st.integers(-10, 10**10), st.sampled_from([0, -0.0, 0.0, -1, -1e-9, 1e-9, 1, 1000, 0.5, True, False, 999.9999]))

        @hseed(seed)
        @hyp_settings(n)
        @given(msv, st.sampled_from(["inject", "patched"]))
        def prop(ms, mode):
            fails = eval_sleep(ms, mode)
            r.case({"kind": "sleep", "ms": ms, "mode": mode}, ms < 0 or isinstance(ms, float))
            record(fails)
    elif what == "sensors":
        level = st.one_of(st.booleans(), st.integers(0, 1), st.sampled_from([0, 1, 2, 3, 255, -1, 0.0, 0.5, 1.0, "", "a", "0", None]))
        lv = st.lists(level, min_size=1, max_size=20)
        gaps_st = st.lists(st.lists(level, max_size=3), max_size=20)
        potv = st.lists(st.one_of(st.integers(0, 1023), st.sampled_from([0, 1023, 1024, -1, 512, 5000, True]), st.integers(-50, 1100)), min_size=1, max_size=10)
        ultv = st.lists(st.one_of(st.floats(0, 500, allow_nan=False), st.integers(0, 400), st.sampled_from([0, 0.0, -0.0, -1, -0.001, 400, 2.5, 1e6])), min_size=1, max_size=10)
        how = st.one_of(st.just({}), st.fixed_dictionaries({"key": st.sampled_from(["sensor", "model"]), "sensor": st.sampled_from(["HC-SR04", "hc-sr04", "hc_sr04", " HC-SR04 ", "Hc_Sr04"])}),
                        st.fixed_dictionaries({"default": st.sampled_from([25.0, 400, 0.0, 1, 12.5])}),
                        st.fixed_dictionaries({"key": st.sampled_from(["sensor", "model"]), "sensor": st.just("HC-SR04"), "default": st.sampled_from([25.0, 400])}))

        @hseed(seed)
        @hyp_settings(n)
        @given(lv, st.booleans(), st.booleans(), potv, st.sampled_from(["A0", "A5", " A1 ", "A15"]), ultv, how, gaps_st)
        def prop(seq, use_provider, with_cb, pv, pin, uv, hw, gaps):
            f1 = eval_button(seq, use_provider, with_cb, gaps)
            edges = sum(1 for i in range(1, len(seq)) if seq[i] and not seq[i - 1])
            r.case({"kind": "button", "seq": seq, "use_provider": use_provider, "with_cb": with_cb, "gaps": gaps}, with_cb and edges >= 2)
            if not use_provider and any(gaps[: len(seq)]):
                r.count("button_level_changes_between_polls")
            if any(type(x) not in (bool,) and x not in (0, 1) for x in seq):
                r.count("button_non_boolean_levels")
            f2 = eval_pot(pv, pin)
            r.case({"kind": "pot", "seq": pv, "pin": pin}, any(not 0 <= v <= 1023 for v in pv))
            f3 = eval_ultra(uv, hw)
            r.case({"kind": "ultra", "seq": uv, "how": hw}, any(v < 0 for v in uv))
            record(f1 + f2 + f3)
    else:
        @hseed(seed)
        @hyp_settings(n)
        @given(st.lists(sval, min_size=1, max_size=6), st.sampled_from([None, "\n", "\r\n", "", "|", "\n\n"]),
               st.sampled_from(["ctor", "connect", "never", "close-midway"]), st.sampled_from([9600, 115200, 1, 300, 57600.0]))
        def prop(values, newline, connect, baud):
            fails = eval_serial(values, newline, connect, baud)
            r.case({"kind": "serial", "values": values, "newline": newline, "connect": connect, "baud": baud},
                   connect != "never" and any(not isinstance(v, str) for v in values))
            record(fails)

    try:
        prop()
    except AssertionError:
        pass
    r.failures = list(last.values())
    return r


def replay(case):
    k = case["kind"]
    if k == "core":
        return eval_core(case["ops"])[0]
    if k == "map":
        return eval_map(tuple(case["args"]))
    if k == "sleep":
        return eval_sleep(case["ms"], case["mode"])
    if k == "button":
        return eval_button(case["seq"], case["use_provider"], case["with_cb"], case.get("gaps"))
    if k == "pot":
        return eval_pot(case["seq"], case["pin"])
    if k == "ultra":
        return eval_ultra(case["seq"], case["how"])
    if k == "serial":
        return eval_serial(case["values"], case["newline"], case["connect"], case["baud"])
    raise ValueError(k)
