"""C07 - every line is accounted for and stays in the block Python assigns it to.

(a) accounting: generated programs seeded with lines of every statement kind at every depth; with the REDUINO_VERIF
    hook on, every logical line must have produced an IR node, raised ValueError, or belong to the fixed no-meaning
    set (imports, target(), pass, global, comments, docstrings, print).
(b) layout invariance (metamorphic): outcome(relayout(P)) == outcome(P), outcome = emitted text byte-for-byte or the
    fact of a ValueError; every variant is validated with ast.dump equality first.
"""
from __future__ import annotations

import ast
import re

from hypothesis import Phase, given, seed as hseed, strategies as st

from vlib import gen_layout as gl, gen_script as gs
from vlib.runner import Result, hyp_settings

ID = "C07"
LEVEL = "exploration"
RULE = (
    "(b) Hypothesis draws a program from the typed grammar (core profile, plus a device-rich profile; one in four is a type-flow scenario script of C02, whose helpers are re-parsed per call signature) and a re-layout: "
    "indent unit 1-8 spaces or tab per block, blank lines (empty/whitespace), comment lines at the block's column, deeper, "
    "shallower and column 0, trailing comments on any line incl. block headers, trailing whitespace, compact or spacey token "
    "spacing; the variant is first checked to be the same Python program (ast.dump equality), then transpiled: the outcome "
    "(emitted bytes or ValueError) must equal the original's. Non-trivial = variant differs in >=2 layout dimensions and has a "
    "comment on a block header or at a column different from its block. (a) programs seeded with supported and unsupported "
    "statement kinds at depth 0-3; each logical line is classified through the REDUINO_VERIF hook; non-trivial = contains a line "
    "outside the translated set at depth >= 1. (c) control-flow skeletons: nested if/elif/else, for, fuelled while and a helper body in which every block either "
    "writes a unique marker or is empty on the device (pass / print / comment / docstring), conditions on tape-driven values; firmware markers must equal CPython's "
    "(mock core differential); non-trivial = an empty arm followed by a live arm in the same chain. distinct = distinct source text."
)
ASSUMPTIONS = [
    "line continuations (backslash, open brackets across lines) and triple-quoted strings are outside the documented style and not generated for (b)",
    "the hook (REDUINO_VERIF=1) reports every site that consumes a line without producing a node; lines not reported and not translated are found by the line-count cross-check",
]

PROFILE = gs.Profile(name="layout", off=set(gs.DEFAULT_OFF), max_stmts=8, hostile_strings=True)

DEVICE_LINES = [
    "rgb = RGBLed(9, 10, 11)", "rgb.set_color(1, 2, 3)", "rgb.on(10, 20, 30)", "rgb.off()", "rgb.fade(1, 2, 3, 100, 5)", "rgb.blink(5, 6, 7, times=2, delay_ms=10)",
    "srv = Servo(6)", "srv.write(90)", "srv.write_us(1500)", "mot = DCMotor(2, 4, 3)", "mot.set_speed(0.5)", "mot.stop()", "mot.ramp(1.0, 100)",
    "bz = Buzzer(8)", "bz.play_tone(440, 50)", "bz.beep(440, on_ms=10, off_ms=10, times=2)", "bz.stop()", "bz.melody('siren')",
    "led.blink(10, 2)", "led.set_brightness(100)", "led.fade_in(50, 1)", "led.flash_pattern([1, 0, 1], 5)",
    "pot = Potentiometer('A2')", "i0 = pot.read()", "us = Ultrasonic(7, 8)", "f0 = us.measure_distance()",
]


def outcome(src):
    from Reduino.transpile.emitter import emit
    from Reduino.transpile.parser import parse

    try:
        return ("ok", emit(parse(src)))
    except ValueError as e:
        return ("ValueError", str(e)[:80])
    except Exception as e:
        return ("other:" + type(e).__name__, str(e)[:80])


def same_python(a, b):
    try:
        return ast.dump(ast.parse(a)) == ast.dump(ast.parse(b))
    except SyntaxError:
        return False


def with_devices(draw, nodes):
    """Sprinkle device statements into the prologue (after the declarations) for regex-dispatch coverage."""
    extra = draw(st.lists(st.sampled_from(DEVICE_LINES), max_size=6))
    need = {"rgb": "rgb = RGBLed(9, 10, 11)", "srv": "srv = Servo(6)", "mot": "mot = DCMotor(2, 4, 3)", "bz": "bz = Buzzer(8)", "pot": "pot = Potentiometer('A2')", "us": "us = Ultrasonic(7, 8)"}
    decls, uses = [], []
    for ln in extra:
        dev = ln.split(".")[0].split(" ")[-1] if "." in ln else None
        if " = " in ln and ln.split(" = ")[0] in need:
            if ln not in decls:
                decls.append(ln)
        else:
            for k, d in need.items():
                if re.search(rf"\b{k}\.", ln) and d not in decls:
                    decls.append(d)
            uses.append(ln)
    imp = [("s", "from Reduino.Actuators import RGBLed, Servo, DCMotor, Buzzer"), ("s", "from Reduino.Sensors import Potentiometer, Ultrasonic")]
    # insert after the `led = ...` declaration
    idx = next(i for i, n in enumerate(nodes) if n[0] == "s" and n[1].startswith("led = ")) + 1
    has_f0 = any(n[0] == "s" and n[1].startswith("f0 = ") for n in nodes)
    uses = [u for u in uses if not u.startswith("f0 = ") or has_f0]
    # uses go after all scalar declarations: find first block or helper
    first_block = next((i for i, n in enumerate(nodes) if n[0] == "b"), len(nodes))
    pos = max(idx, min(first_block, len(nodes)))
    return imp + nodes[:idx] + [("s", d) for d in decls] + nodes[idx:pos] + [("s", u) for u in uses] + nodes[pos:]


# ------------------------------------------------------------------ (a) accounting
UNSUPPORTED = [
    ("for_in", ["for v in items:", "    mon.write(v)"]),
    ("while_else", ["while w0 > 0:", "    w0 = w0 - 1", "else:", "    mon.write(1)"]),
    ("with", ["with open('x') as fh:", "    mon.write(1)"]),
    ("class", ["class K:", "    pass"]),
    ("assert", ["assert i0 >= 0"]),
    ("del", ["del i0"]),
    ("raise", ["raise ValueError('x')"]),
    ("lambda_assign", ["fn = lambda a: a + 1"]),
    ("nonlocal", ["nonlocal i0"]),
    ("decorator", ["@staticmethod", "def deco():", "    return 1"]),
    ("nested_def", ["def outer():", "    def inner():", "        return 1", "    return inner()"]),
    ("wrong_arity_device_call", ["led.blink()"]),
    ("unknown_device_method", ["led.explode(3)"]),
    ("call_on_later_device", ["late.on()"]),
    ("subscript_assign", ["items[0] = 5"]),
    ("attr_assign", ["led.pin = 5"]),
    ("multi_target_assign", ["i0 = i1 = 3"]),
    ("annotated_assign", ["i0: int = 5"]),
    ("walrus_stmt", ["(i0 := 5)"]),
    ("import_other", ["import os"]),
    ("from_other", ["from math import sqrt"]),
    ("yield", ["yield 1"]),
    ("global", ["global i0"]),
    ("docstring", ['"""doc"""']),
    ("ellipsis", ["..."]),
    ("constant_expr", ["1 + 2"]),
    ("unknown_call", ["frobnicate(3)"]),
    ("print", ["print('x', i0)"]),
    ("pass", ["pass"]),
    ("star_assign", ["a, *b = 1, 2, 3"]),
    ("aug_subscript", ["items[0] += 1"]),
    ("if_oneline", ["if i0 > 0: mon.write(1)"]),
    ("semicolon", ["mon.write(1); mon.write(2)"]),
    ("try_finally", ["try:", "    mon.write(1)", "finally:", "    mon.write(2)"]),
    ("match", ["match i0:", "    case 1:", "        mon.write(1)"]),
    ("async_def", ["async def co():", "    return 1"]),
    ("return_outside", ["return 5"]),
    ("continue_outside", ["continue"]),
    # expression statements that are not a call at the top but carry one (an effect) inside
    ("boolop_call", ["i0 > 0 and led.on()"]),
    ("boolop_or_call", ["i0 > 5 or led.toggle()"]),
    ("ifexp_calls", ["led.on() if i0 > 0 else led.off()"]),
    ("tuple_calls", ["led.on(), sleep(5)"]),
    ("listcomp_calls", ["[led.toggle() for k in range(2)]"]),
    ("not_call", ["not led.toggle()"]),
    ("compare_call", ["mon.write(1) == 1"]),
    ("binop_call", ["led.get_brightness() + 1"]),
    ("call_chain", ["str(i0).strip()"]),
    ("subscript_call", ["items[abs(i0)]"]),
    ("paren_call", ["(led.on())"]),
]
NO_MEANING = {"import_other", "from_other", "global", "docstring", "print", "pass", "ellipsis", "constant_expr"}
NO_MEANING_REASONS = {"import", "target", "target-inline", "print"}


def classify_line(line):
    """True if `line` belongs to the fixed set of lines without meaning on the device."""
    s = line.strip()
    if not s or s.startswith("#"):
        return True
    try:
        node = ast.parse(s).body
    except SyntaxError:
        return False
    if len(node) != 1:
        return False
    n = node[0]
    if isinstance(n, (ast.Import, ast.ImportFrom, ast.Pass, ast.Global)):
        return True
    if isinstance(n, ast.Expr):
        if isinstance(n.value, ast.Constant):  # docstring, ..., bare literal
            return True
        if isinstance(n.value, ast.Call) and isinstance(n.value.func, ast.Name) and n.value.func.id in ("print", "target"):
            return True
        # an expression over literals only has no effect
        if not any(isinstance(x, (ast.Name, ast.Call, ast.Attribute, ast.NamedExpr)) for x in ast.walk(n.value)):
            return True
    return False


def accounting_case(draw):
    base = ["from Reduino.Actuators import Led", "from Reduino.Communication import SerialMonitor", "from Reduino.Utils import sleep", "from Reduino import target",
            "target('COM3')", "mon = SerialMonitor(9600)", "led = Led(13)", "i0 = 1", "i1 = 2", "w0 = 2", "items = [1, 2, 3]"]
    picks = [UNSUPPORTED[i] for i in draw(st.lists(st.integers(0, len(UNSUPPORTED) - 1), min_size=1, max_size=3))]
    place = draw(st.sampled_from(["top", "if", "for", "def", "main", "main_if", "while"]))
    body = []
    kinds = []
    for kind, lines in picks:
        kinds.append(kind)
        body.extend(lines)
        body.append(f"mon.write({draw(st.integers(0, 9))})")
    ind = lambda ls, n=1: [("    " * n) + x for x in ls]
    if place == "top":
        src = base + body
    elif place == "if":
        src = base + ["if i0 > 0:"] + ind(body) + ["else:"] + ind(["mon.write(0)"])
    elif place == "for":
        src = base + ["for k in range(2):"] + ind(body)
    elif place == "while":
        src = base + ["while w0 > 0:"] + ind(["w0 = w0 - 1"] + body)
    elif place == "def":
        src = base + ["def h():"] + ind(body + ["return 1"]) + ["i1 = h()"]
    elif place == "main":
        src = base + ["while True:"] + ind(body)
    else:
        src = base + ["while True:"] + ind(["if i0 > 0:"]) + ind(body, 2)
    src.append("late = Led(5)")
    return {"src": "\n".join(src) + "\n", "kinds": kinds, "place": place}


def eval_accounting(case):
    import Reduino.transpile.parser as P
    from Reduino.transpile.emitter import emit

    if not getattr(P, "_VERIF_ENABLED", False):
        raise RuntimeError("REDUINO_VERIF hook is not active in the tree under test")
    P._VERIF_IGNORED.clear()
    try:
        prog = P.parse(case["src"])
        emit(prog)
    except ValueError:
        return "rejected", []
    except Exception as e:
        return "rejected-other:" + type(e).__name__, []
    ignored = list(P._VERIF_IGNORED)
    P._VERIF_IGNORED.clear()
    fails = []
    for scope, depth, line, reason in ignored:
        if reason in NO_MEANING_REASONS:
            continue
        if classify_line(line):
            continue
        stmt = _stmt_kind(line)
        fails.append({"bucket": f"line-dropped:{stmt}", "case": case, "expected": "translated, rejected with ValueError, or a no-meaning line",
                      "observed": f"{line!r} silently ignored ({reason}, scope={scope}, depth={depth})"})
    return "ok", fails


def _stmt_kind(line):
    """Fine-grained statement kind: the bucket identifies call site + kind, so a different dropped statement is a different bucket."""
    s = line.strip()
    for probe, last in ((s, False), (s + "\n    pass", False), ("if 1:\n    pass\n" + s + "\n    pass", True), ("try:\n    pass\n" + s + "\n    pass", True),
                        (s + "\ndef __f():\n    pass", False)):
        try:
            body = ast.parse(probe).body
        except SyntaxError:
            continue
        n = body[-1] if last else body[0]
        if last:
            return "continuation-of-" + type(n).__name__ + ":" + s.split(":")[0].split()[0]
        if isinstance(n, ast.Expr):
            v = n.value
            if isinstance(v, ast.Call):
                if isinstance(v.func, ast.Attribute) and isinstance(v.func.value, ast.Name):
                    return f"method-call:{v.func.value.id}.{v.func.attr}/{len(v.args)}"
                if isinstance(v.func, ast.Name):
                    return f"call:{v.func.id}"
                return "call:other"
            return "expr:" + type(v).__name__
        if isinstance(n, (ast.Assign, ast.AugAssign, ast.AnnAssign)):
            tg = n.targets if isinstance(n, ast.Assign) else [n.target]
            kind = "multi-target" if len(tg) > 1 else type(tg[0]).__name__ + "-target"
            if isinstance(tg[0], (ast.Tuple, ast.List)) and any(isinstance(e, ast.Starred) for e in tg[0].elts):
                kind = "starred-target"
            return f"{type(n).__name__}:{kind}"
        if isinstance(n, ast.FunctionDef) and n.decorator_list and s.startswith("@"):
            return "decorator"
        if isinstance(n, ast.FunctionDef):
            return "FunctionDef:not-at-top-level"
        if isinstance(n, ast.If) and probe == s:
            return "If:one-line-body"
        if isinstance(n, ast.For):
            it = n.iter
            return "For:" + ("range" if isinstance(it, ast.Call) and isinstance(it.func, ast.Name) and it.func.id == "range" else "non-range")
        return type(n).__name__
    return "unparsable:" + (s.split()[0] if s.split() else "")


# ------------------------------------------------------------------ (c) control-flow skeletons
SK_HEAD = ("from Reduino.Communication import SerialMonitor\nfrom Reduino.Core import analog_read\nfrom Reduino.Utils import sleep\nmon = SerialMonitor(9600)\n")
EMPTY_ARMS = [["pass"], ["print('host only')"], ["# nothing to do here", "pass"], ["pass", "# dead band"], ['"doc"'], ["print(1)", "pass"]]


class Skel:
    """nested if/elif/else, for, while and helper bodies in which every block either writes a unique marker or is empty on the device
    (pass / print / comment / docstring); conditions read tape-driven values, so which markers appear is decided at run time."""

    def __init__(self, draw):
        self.draw = draw
        self.k = 0
        self.empty_then_live = False
        self.n_empty = 0

    def marker(self):
        self.k += 1
        return f"mon.write('@{self.k}')"

    def cond(self):
        return f"a{self.draw(st.integers(0, 2))} {self.draw(st.sampled_from(['>', '<', '>=']))} {self.draw(st.sampled_from([100, 300, 500, 700, 900]))}"

    def arm(self, depth, in_loop, allow_empty=True):
        if allow_empty and self.draw(st.integers(0, 3)) == 0:
            self.n_empty += 1
            return list(self.draw(st.sampled_from(EMPTY_ARMS))), True
        return self.block(depth + 1, in_loop), False

    def block(self, depth, in_loop):
        out = []
        for _ in range(self.draw(st.integers(1, 3 if depth < 2 else 2))):
            kind = self.draw(st.sampled_from(["m", "m", "if", "if", "for", "while", "while_up"] if depth < 3 else ["m"]))
            if kind == "m":
                out.append(self.marker())
            elif kind == "if":
                arms = [("if " + self.cond() + ":",) + self.arm(depth, in_loop)]
                for _ in range(self.draw(st.integers(0, 2))):
                    arms.append(("elif " + self.cond() + ":",) + self.arm(depth, in_loop))
                if self.draw(st.booleans()):
                    arms.append(("else:",) + self.arm(depth, in_loop))
                for i, (hdr, body, empty) in enumerate(arms):
                    if empty and any(not e for _, _, e in arms[i + 1:]):
                        self.empty_then_live = True
                    out.append(hdr)
                    out += ["    " + b for b in body]
            elif kind == "for":
                v = f"k{depth}"
                body, _ = self.arm(depth, True, allow_empty=self.draw(st.booleans()))
                tail = []
                if self.draw(st.integers(0, 3)) == 0:
                    tail = [f"if {v} == 0:", "    " + self.draw(st.sampled_from(["continue", "break"])), self.marker()]
                out.append(f"for {v} in range({self.draw(st.integers(0, 3))}):")
                out += ["    " + b for b in body + tail]
            elif kind == "while_up":
                # a counter reset to the type's default value right before its loop: inside an outer loop the reset line runs every time
                w = f"u{depth}"
                body, _ = self.arm(depth, True)
                out += [f"{w} = 0", f"while {w} < {self.draw(st.integers(1, 2))}:", f"    {w} = {w} + 1"] + ["    " + b for b in body]
            else:
                w = f"w{depth}"
                body, _ = self.arm(depth, True)
                out += [f"{w} = {self.draw(st.integers(0, 2))}", f"while {w} > 0:", f"    {w} = {w} - 1"] + ["    " + b for b in body]
        return out


def skeleton_case(draw):
    sk = Skel(draw)
    reads = ["a0 = analog_read('A0')", "a1 = analog_read('A0')", "a2 = analog_read('A0')"]
    lines = list(reads)
    if draw(st.booleans()):
        body, _ = sk.arm(0, False, allow_empty=False)
        lines = ["a0 = 0", "a1 = 0", "a2 = 0", "def hk():"] + ["    " + b for b in body] + ["    return 1"] + reads + ["mon.write(hk())"]
    lines += sk.block(0, False)
    n = 0
    if draw(st.booleans()):
        n = draw(st.integers(1, 3))
        body = reads + sk.block(1, False)
        if draw(st.booleans()):
            # a loop whose condition is false for the value the name has textually before it (0 from the prologue) and true in later passes,
            # because the body sets the name further down: the loop belongs to the program whatever its condition folds to at parse time
            lines.insert(0, "f0 = 0")
            body = [f"while f0 > 0:", "    f0 = f0 - 1", "    " + sk.marker()] + body + [f"f0 = {draw(st.integers(1, 2))}"]
        lines += ["while True:"] + ["    " + b for b in body + ["sleep(1)"]]
    vals = draw(st.lists(st.sampled_from([0, 200, 400, 600, 800, 1023]), min_size=3 * (n + 1), max_size=3 * (n + 1)))
    return {"skeleton": SK_HEAD + "\n".join(lines) + "\n", "n": n, "tape": {"analog": {"14": vals}, "digital": {}}, "empty_then_live": sk.empty_then_live, "empty": sk.n_empty}


def eval_skeleton(case):
    from vlib import diff

    tape = {k: {int(p): v for p, v in d.items()} for k, d in case["tape"].items()}
    o = diff.evaluate(case["skeleton"], case["n"], tape, off=frozenset())
    if o.status == "FAIL":
        return o.status, [{"bucket": "block-structure:" + o.bucket, "case": {k: case[k] for k in ("skeleton", "n", "tape")},
                           "expected": "the markers CPython prints, in the same order (every block is where Python puts it, empty arms keep their condition)", "observed": o.detail}]
    return o.status, []


# ------------------------------------------------------------------ shards
def plan(tier):
    q = tier == "quick"
    units = [(f"layout-{i}", {"what": "layout", "n": 200 if q else 12000}) for i in range(12)]
    units += [(f"account-{i}", {"what": "account", "n": 400 if q else 6000}) for i in range(4)]
    units += [(f"skeleton-{i}", {"what": "skeleton", "n": 30 if q else 1500}) for i in range(8)]
    return units


def layout_kwargs():
    # layout classes of open findings are switched off here by construction (see known_findings.json)
    return dict(OPEN_LAYOUT)


OPEN_LAYOUT = {}


def run_shard(name, seed, tier, what, n):
    r = Result()
    last = {}
    if what == "layout":
        @hseed(seed)
        @hyp_settings(n, phases=(Phase.generate,))
        @given(st.data())
        def prop(data):
            if data.draw(st.integers(0, 3)) == 0:
                # type-flow scenario scripts (helpers re-specialised per call signature, hoisted declarations): the transpiler re-reads stored source text
                from checks import c02

                tf = data.draw(c02.program(frozenset(c02.OPEN_CLASSES)))
                nodes = gs.lines_to_nodes(tf["src"].rstrip("\n").split("\n"))
                r.count("layout_of_typeflow_script")
            else:
                prog = data.draw(gs.program_strategy(PROFILE))
                nodes = prog["nodes"]
                if data.draw(st.booleans()):
                    nodes = with_devices(data.draw, nodes)
            base = gs.render(nodes)
            variant, dims = gl.relayout(data.draw, nodes, **layout_kwargs())
            if not same_python(base, variant):
                r.count("transformer_invalid_variant")
                return
            import Reduino.transpile.parser as P
            P._VERIF_IGNORED.clear()
            o1 = outcome(base)
            dropped = [(sc, dp, ln, rs) for sc, dp, ln, rs in P._VERIF_IGNORED if rs not in NO_MEANING_REASONS and not classify_line(ln)]
            P._VERIF_IGNORED.clear()
            o2 = outcome(variant)
            r.count("base:" + o1[0])
            if o1[0] == "ok":
                for sc, dp, ln, rs in dropped:
                    b = "line-dropped:" + _stmt_kind(ln)
                    if b not in last:
                        last[b] = {"bucket": b, "case": {"src": base, "kinds": ["grammar"], "place": "grammar"},
                                   "expected": "translated, rejected with ValueError, or a no-meaning line",
                                   "observed": f"{ln!r} silently ignored ({rs}, scope={sc}, depth={dp})"}
            for d in dims:
                r.count("dim:" + d)
            nt = len(dims) >= 2 and bool(set(dims) & {"trailing_comment_header", "comment_deeper", "comment_col0_in_block", "comment_shallower"})
            case = {"base": base, "variant": variant}
            r.case(case if len(r.samples) < 1 else {"dims": dims, "vh": hash(variant) & 0xffffffff}, nt)
            if o1 != o2:
                b = "layout-changes-outcome:" + _blame(nodes, dims, base)
                if b not in last or len(variant) < len(last[b]["case"]["variant"]):
                    last[b] = {"bucket": b, "case": case, "expected": f"same outcome as the original ({o1[0]})", "observed": _diff(o1, o2)}

        prop()
        # shrink: re-apply single dimensions to find the smallest responsible edit
        for b, fl in list(last.items()):
            if "variant" in fl["case"]:
                last[b] = _shrink_layout(fl)
    elif what == "skeleton":
        @hseed(seed)
        @hyp_settings(n, phases=(Phase.generate,))
        @given(st.data())
        def prop(data):
            case = skeleton_case(data.draw)
            status, fails = eval_skeleton(case)
            r.count("skeleton:" + status)
            r.count("skeleton_empty_arms", case["empty"])
            r.case({k: case[k] for k in ("skeleton", "n")} if len(r.samples) < 1 else {"h": hash(case["skeleton"]) & 0xffffffff, "n": case["n"]},
                   status == "ok" and case["empty_then_live"])
            for fl in fails:
                if fl["bucket"] not in last or len(case["skeleton"]) < len(last[fl["bucket"]]["case"]["skeleton"]):
                    last[fl["bucket"]] = fl

        prop()
    else:
        @hseed(seed)
        @hyp_settings(n, phases=(Phase.generate,))
        @given(st.data())
        def prop(data):
            case = accounting_case(data.draw)
            status, fails = eval_accounting(case)
            r.count("status:" + status)
            for k in case["kinds"]:
                r.count("kind:" + k)
            r.case(case if len(r.samples) < 1 else {"kinds": case["kinds"], "place": case["place"]},
                   case["place"] != "top" and any(k not in NO_MEANING for k in case["kinds"]))
            for fl in fails:
                if fl["bucket"] not in last or len(case["src"]) < len(last[fl["bucket"]]["case"]["src"]):
                    last[fl["bucket"]] = fl

        prop()
    r.failures = list(last.values())
    return r


def _blame(nodes, dims, base):
    cands = [d for d in dims if d in ("trailing_comment_header", "comment_col0_in_block", "comment_shallower", "comment_deeper", "respace_compact", "respace_spacey", "trailing_comment")]
    return "+".join(cands[:3]) if cands else "+".join(dims[:3])


def _diff(o1, o2):
    if o1[0] != o2[0]:
        return f"original {o1[0]} ({o1[1][:60]!r}) vs variant {o2[0]} ({o2[1][:60]!r})"
    a, b = o1[1].splitlines(), o2[1].splitlines()
    for i, (x, y) in enumerate(zip(a, b)):
        if x != y:
            return f"emitted line {i}: {x!r} vs {y!r}"
    return f"emitted length {len(a)} vs {len(b)} lines"


def _shrink_layout(fl):
    """Line-level ddmin on the variant: revert variant lines to base where the outcome difference persists."""
    base, variant = fl["case"]["base"], fl["case"]["variant"]
    vl = variant.split("\n")
    o1 = outcome(base)
    # try dropping filler lines (blank / comment-only) one at a time
    i = 0
    evals = 0
    while i < len(vl) and evals < 400:
        s = vl[i].strip()
        if s == "" or s.startswith("#"):
            cand = vl[:i] + vl[i + 1:]
            evals += 1
            if same_python(base, "\n".join(cand)) and outcome("\n".join(cand)) != o1:
                vl = cand
                continue
        i += 1
    # strip trailing comments line by line
    for i in range(len(vl)):
        if "#" in vl[i] and not vl[i].strip().startswith("#"):
            cut = vl[i][: vl[i].index("#")].rstrip()
            cand = vl[:i] + [cut] + vl[i + 1:]
            evals += 1
            if same_python(base, "\n".join(cand)) and outcome("\n".join(cand)) != o1:
                vl = cand
    small = "\n".join(vl)
    out = dict(fl)
    out["case"] = {"base": base, "variant": small}
    out["observed"] = _diff(o1, outcome(small))
    return out


def replay(case):
    if "skeleton" in case:
        return eval_skeleton(case)[1]
    if "variant" in case:
        if not same_python(case["base"], case["variant"]):
            return []
        o1, o2 = outcome(case["base"]), outcome(case["variant"])
        if o1 != o2:
            return [{"bucket": "layout-changes-outcome", "case": case, "expected": f"same outcome as the original ({o1[0]})", "observed": _diff(o1, o2)}]
        return []
    status, fails = eval_accounting(case)
    return fails[:1]
