"""C01 - reject-or-preserve: firmware behaves as the Python source says (core language).

Differential: the same generated script is (a) transpiled, compiled against the mock Arduino core and run for N
loop() passes with an input tape, and (b) executed by CPython against the instrumented host modules with the same
tape; the observation sequences must agree (vlib/tracecmp).
"""
from __future__ import annotations

from hypothesis import Phase, given, seed as hseed, strategies as st

from vlib import diff, gen_script as gs, shrink
from vlib.runner import Result, hyp_settings

ID = "C01"
LEVEL = "translation_validation"
RULE = (
    "Hypothesis builds scripts from a typed constructive grammar (assignments, swaps, tuple/augmented assignment, int/float/"
    "bool/str expressions incl. abs/min/max/len/int/float/str, f-strings, if/elif/else, fuelled while, for-range, break, "
    "continue, helper functions with parameters/returns, list literals/comprehensions/indexing, Serial writes, sleep, Led, "
    "Core pin helpers), an input tape for digital_read/analog_read and N in 0..3 loop passes. Each accepted script is "
    "compiled against the mock core and its trace compared with CPython's run of the same text. Non-trivial = accepted, "
    "compiled, >=5 observable events and at least one of: loop with break/continue, helper call, list op, main loop with "
    "N>=2. distinct = distinct script text + tape. Classes of open findings are excluded by construction and by a dynamic "
    "membership test on the CPython run (counted). Exotic shards: ~170 typed expression templates outside the documented subset (bit operators, powers, truthiness of every type, "
    "string indexing / ordering, mixed numeric types, built-ins, methods, slices, membership, formatting) instantiated over int/float/str/bool/list variables and literals in six contexts "
    "(print, assignment, condition, helper return, main loop, copy): ValueError or the same trace as CPython; templates of open findings are off while the finding is open."
)
ASSUMPTIONS = [
    "host g++ with AVR-like flags against the mock Arduino core stands in for avr-g++ and the real core",
    "int is 32-bit and float rendering is %.9g in the mock: 16-bit overflow and Arduino's 2-decimal rendering are not decided",
    "float values are compared numerically (rel 1e-4); cases where an intermediate float is not float32-exact are discarded (counted)",
]

PROFILE = gs.Profile(name="core", off=set(gs.DEFAULT_OFF), hostile_strings=True)   # printable literals with quotes, backslashes, #, %: they are printed, so the line lexer and the escaper both show

tape_st = st.fixed_dictionaries({
    "digital": st.fixed_dictionaries({8: st.lists(st.integers(0, 1), max_size=6), 9: st.lists(st.integers(0, 1), max_size=6)}),
    "analog": st.fixed_dictionaries({14: st.lists(st.integers(0, 1023), max_size=6), 15: st.lists(st.integers(0, 1023), max_size=6)}),
})


def plan(tier):
    n = 60 if tier == "quick" else 1500
    return [(f"gen-{i}", {"n": n}) for i in range(16)] + [(f"exotic-{i}", {"n": 50 if tier == "quick" else 1500}) for i in range(16)]


def nontrivial(feats, out, n):
    if out.status != "ok" or len(out.trace.events) < 7:
        return False
    fs = set(feats)
    return bool(fs & {"break", "continue", "helper_call", "list_index", "list_index_neg", "list_comp", "list_mutation"}) or ("main_loop" in fs and n >= 2)


def evaluate_case(case):
    # replays (saved violations and known-finding witnesses) are judged without any class exclusion
    src = case["src"]
    return diff.evaluate(src, case["n"], _tape(case["tape"]), off=frozenset())


def _tape(t):
    return {k: {int(p): v for p, v in d.items()} for k, d in t.items()}


def open_classes():
    from vlib.runner import load_known

    off = set()
    for f in load_known():
        if f.get("status") == "open" and f.get("property") in ("C01", "C06"):
            off.update(f.get("excluded_by") or [])
    return off


def run_exotic(name, seed, tier, n):
    from checks import c01_exotic as ex

    r = Result()
    found = {}
    off = frozenset(open_classes())

    @hseed(seed)
    @hyp_settings(n, phases=(Phase.generate,))
    @given(ex.exotic_case(off))
    def prop(case):
        out = diff.evaluate(case["src"], case["n"], _tape(case["tape"]), off=frozenset())
        r.count("exotic:" + out.status)
        if out.status == "rejected":
            r.count("exotic_rejected:" + case["template"])
        c = {k: case[k] for k in ("src", "n", "tape")}
        r.case(c if len(r.samples) < 1 else {"src": case["src"][len(ex.PRELUDE):]}, out.status == "ok")
        if out.status == "FAIL":
            key = f"exotic:{case['template']}:{out.bucket}"
            if key not in found or len(case["src"]) < len(found[key][0]["src"]):
                found[key] = (c, out)

    prop()
    for key, (c, out) in found.items():
        r.fail(key, c, "firmware trace == CPython trace (or ValueError)", out.detail)
    return r


def run_shard(name, seed, tier, n):
    if name.startswith("exotic"):
        return run_exotic(name, seed, tier, n)
    r = Result()
    found = {}

    @hseed(seed)
    @hyp_settings(n, phases=(Phase.generate,))
    @given(gs.program_strategy(PROFILE), st.integers(0, 3), tape_st)
    def prop(prog, npass, tape):
        src = gs.render(prog["nodes"])
        case = {"src": src, "n": npass, "tape": {k: {str(p): v for p, v in d.items()} for k, d in tape.items()}}
        out = diff.evaluate(src, npass, tape, off=PROFILE.off)
        r.count("status:" + out.status)
        if out.status == "excluded-class":
            r.count("excluded:" + out.detail)
        if out.status == "rejected":
            r.count("rejected:" + out.detail[:40])
        r.case(case if len(r.samples) < 2 else {"src": src[-200:], "n": npass}, nontrivial(prog["features"], out, npass))
        for f in prog["features"]:
            r.count("feature:" + f)
        if out.status == "FAIL":
            key = out.bucket
            if key not in found or len(src) < len(found[key][0]["src"]):
                found[key] = (case, prog["nodes"], out)

    prop()
    # collect-then-shrink: one structural reduction per bucket
    for bucket, (case, nodes, out) in found.items():
        def still(cand, bucket=bucket, case=case):
            o = diff.evaluate(gs.render(cand), case["n"], _tape(case["tape"]), off=PROFILE.off)
            return o.status == "FAIL" and o.bucket == bucket
        small, evals = shrink.shrink_nodes(nodes, still, max_evals=60 if tier == "quick" else 200, protect=gs.is_decl)
        r.count("shrink_evals", evals)
        c2 = dict(case, src=gs.render(small))
        o2 = diff.evaluate(c2["src"], c2["n"], _tape(c2["tape"]), off=PROFILE.off)
        if o2.status != "FAIL":
            c2, o2 = case, out
        r.fail(o2.bucket, c2, "firmware trace == CPython trace (or ValueError)", o2.detail)
    return r


def replay(case):
    o = evaluate_case(case)
    if o.status == "FAIL":
        return [{"bucket": o.bucket, "case": case, "expected": "firmware trace == CPython trace (or ValueError)", "observed": o.detail}]
    return []
