"""C02 - type inference is sound: no value is narrowed or re-typed on the device.

Scenario-based generator: each program is a concatenation of type-flow scenarios (joins at first assignment, hoisting
out of branches/loops, helper return joins, parameters, list element joins, String promotion, tuple assignment, ...)
with generated values, conditions fed from the tape and placement (prologue / main loop).  Oracle: the differential of
C01 plus a static cross-check that the declared C++ type of every user name can hold every Python type the reference
run observed in it.
"""
from __future__ import annotations

import re

from hypothesis import Phase, given, seed as hseed, strategies as st

from vlib import diff
from vlib.runner import Result, hyp_settings

ID = "C02"
LEVEL = "translation_validation"
RULE = (
    "Hypothesis composes 2-6 type-flow scenarios per script (if/else join at first assignment, conditional-expression "
    "join, float-first then int, hoisting out of a top-level branch / for / while, helper with several return types, "
    "annotated and int parameters, list element join, String promotion through + and +=, tuple assignment, values "
    "crossing loop() passes) with generated int/float/bool/str values and conditions read from the tape; every value is "
    "printed after every assignment. Oracle: trace equality with CPython (values compared numerically) and the static "
    "rule 'declared C++ type can hold every Python type observed for that name'. Non-trivial = a name observed with >=2 "
    "Python types, or a hoisted declaration, or a helper with >=2 return expressions. distinct = distinct script + tape. "
    "Scenario classes of open findings (re-typing an int name, several call signatures, branch-in-loop hoisting, "
    "unannotated non-int parameters, abs/min/max of floats) are switched off by construction; their witnesses still run."
)
ASSUMPTIONS = [
    "same trusted base as C01 (mock core, host g++, float32-exact intermediates)",
    "a name holding 1 on one path and 2.5 on another is float on the device; 1 printed as 1.0 is the same value",
]

HEAD = ("from Reduino.Communication import SerialMonitor\nfrom Reduino.Core import analog_read, digital_read\nfrom Reduino.Utils import sleep\n"
        "mon = SerialMonitor(9600)\n")
OPEN_CLASSES = {"retype", "multi_signature", "branch_in_loop", "unannotated_param", "main_loop_first_assign"}

ints = st.one_of(st.integers(-20, 300), st.sampled_from([0, 1, 2, 255]))
flts = st.integers(-80, 80).map(lambda k: k / 8.0).filter(lambda v: v != int(v) or True)
nonint_flts = st.integers(-80, 80).map(lambda k: k / 8.0 + 0.125)
strs = st.text(alphabet="abcXYZ 0189_-:", max_size=6)


def lit(v):
    return repr(v)


class Builder:
    def __init__(self, draw, off):
        self.draw = draw
        self.off = off
        self.k = 0
        self.pre = []     # helper defs
        self.body = []    # prologue lines
        self.loop = []    # main loop lines
        self.labels = []
        self.ana_reads = 0

    def name(self, p="v"):
        self.k += 1
        return f"{p}{self.k}"

    def cond(self):
        """A condition only the tape decides."""
        self.ana_reads += 1
        thr = self.draw(st.sampled_from([100, 500, 900]))
        return f"analog_read(\"A0\") > {thr}"

    def val(self, t):
        if t == "int":
            return lit(self.draw(ints))
        if t == "float":
            return lit(self.draw(nonint_flts))
        if t == "bool":
            return lit(self.draw(st.booleans()))
        return lit(self.draw(strs))

    def out(self, target, lines):
        target.extend(lines)

    # ---- scenarios; each returns (label, lines) appended to `target`
    def s_if_else_join(self, target):
        x = self.name()
        t1, t2 = self.draw(st.sampled_from([("int", "float"), ("float", "int"), ("int", "int"), ("float", "float"), ("bool", "bool"), ("str", "str")]))
        self.out(target, [f"if {self.cond()}:", f"    {x} = {self.val(t1)}", "else:", f"    {x} = {self.val(t2)}", f"mon.write({x})"])
        return "if_else_join"

    def s_ifexp_join(self, target):
        x = self.name()
        t1, t2 = self.draw(st.sampled_from([("int", "float"), ("float", "int"), ("str", "str"), ("int", "int"), ("bool", "float"), ("float", "bool"), ("bool", "int"), ("int", "bool"), ("bool", "bool")]))
        self.out(target, [f"{x} = {self.val(t1)} if {self.cond()} else {self.val(t2)}", f"mon.write({x})"])
        return "ifexp_join"

    def s_float_first(self, target):
        x = self.name()
        self.out(target, [f"{x} = {self.val('float')}", f"mon.write({x})", f"{x} = {self.val('int')}", f"mon.write({x})",
                          f"{x} = {x} + {self.val('float')}", f"mon.write({x})"])
        return "float_first_then_int"

    def s_branch_hoist(self, target):
        x = self.name()
        t = self.draw(st.sampled_from(["int", "float", "str", "bool"]))
        c = self.name("c")
        self.out(target, [f"{c} = {self.cond()}", f"if {c}:", f"    {x} = {self.val(t)}", f"    mon.write({x})", f"if {c}:", f"    mon.write({x})"])
        return "branch_hoist"

    def s_elif_hoist(self, target):
        x = self.name()
        nel = self.draw(st.integers(1, 3))
        ts = [self.draw(st.sampled_from(["int", "float"])) for _ in range(nel + 2)]
        n = self.name("n")
        thr = [800, 500, 300, 100][:nel + 1]
        lines = [f"{n} = analog_read(\"A0\")", f"if {n} > {thr[0]}:", f"    {x} = {self.val(ts[0])}"]
        for i in range(nel):
            lines += [f"elif {n} > {thr[i + 1]}:", f"    {x} = {self.val(ts[i + 1])}"]
        if self.draw(st.booleans()) or True:
            lines += ["else:", f"    {x} = {self.val(ts[-1])}"]
        lines.append(f"mon.write({x})")
        self.out(target, lines)
        self.ana_reads += 1
        return "elif_hoist"

    def s_for_hoist(self, target):
        x = self.name()
        t = self.draw(st.sampled_from(["int", "float", "str"]))
        k = self.name("k")
        cnt = self.draw(st.integers(1, 3))
        expr = {"int": f"{k} * {self.draw(st.integers(1, 9))}", "float": f"{k} * {self.draw(st.sampled_from(['0.5', '0.25', '1.5']))}", "str": f"str({k}) + {self.val('str')}"}[t]
        self.out(target, [f"for {k} in range({cnt}):", f"    {x} = {expr}", f"    mon.write({x})", f"mon.write({x})"])
        return "for_hoist"

    def s_while_hoist(self, target):
        x, w = self.name(), self.name("w")
        t = self.draw(st.sampled_from(["int", "float"]))
        expr = f"{w} * 3" if t == "int" else f"{w} * 0.5"
        self.out(target, [f"{w} = {self.draw(st.integers(1, 3))}", f"while {w} > 0:", f"    {x} = {expr}", f"    {w} = {w} - 1", f"mon.write({x})"])
        return "while_hoist"

    def s_return_join(self, target):
        h, a = self.name("h"), self.name("a")
        t1, t2 = self.draw(st.sampled_from([("int", "float"), ("float", "int"), ("int", "int"), ("float", "float"), ("bool", "bool"), ("str", "str"), ("bool", "int"), ("int", "bool"), ("bool", "float")]))
        thr = self.draw(st.sampled_from([100, 500, 900]))
        self.pre += [f"def {h}({a}):", f"    if {a} > {thr}:", f"        return {self.val(t1)}", f"    return {self.val(t2)}"]
        x = self.name()
        self.ana_reads += 1
        form = self.draw(st.sampled_from(["assign", "write", "expr"]))
        if form == "assign":
            self.out(target, [f"{x} = {h}(analog_read(\"A0\"))", f"mon.write({x})"])
        elif form == "write":
            self.out(target, [f"mon.write({h}(analog_read(\"A0\")))"])
        else:
            if t1 == "str":
                self.out(target, [f"{x} = {h}(analog_read(\"A0\")) + \"!\"", f"mon.write({x})"])
            elif t1 == "bool":
                self.out(target, [f"if {h}(analog_read(\"A0\")):", f"    mon.write(1)"])
            else:
                self.out(target, [f"{x} = {h}(analog_read(\"A0\")) * 2", f"mon.write({x})"])
        return "return_join"

    def s_annotated_param(self, target):
        h, a, b = self.name("h"), self.name("a"), self.name("b")
        t = self.draw(st.sampled_from(["float", "str", "bool", "int"]))
        ann = {"float": "float", "str": "str", "bool": "bool", "int": "int"}[t]
        bodyexpr = {"float": f"{a} * 2.0 + {b}", "str": f"{a} + str({b})", "bool": f"{b} if {a} else 0 - {b}", "int": f"{a} * {b}"}[t]
        self.pre += [f"def {h}({a}: {ann}, {b}):", f"    mon.write({a})", f"    return {bodyexpr}"]
        x = self.name()
        self.out(target, [f"{x} = {h}({self.val(t)}, {self.val('int')})", f"mon.write({x})", f"mon.write({h}({self.val(t)}, {self.val('int')}))"])
        return "annotated_param"

    def s_annotation_mismatch(self, target):
        """the annotation names a narrower type than the argument every call passes (Python ignores annotations: the value arrives unchanged)"""
        h, a, b = self.name("h"), self.name("a"), self.name("b")
        ann, t = self.draw(st.sampled_from([("int", "float"), ("int", "float"), ("bool", "int"), ("bool", "float"), ("int", "bool"), ("float", "int")]))
        body = self.draw(st.sampled_from([f"{a} * 2 + {b}", f"{a} + {b}", f"{a} * {b}"]))
        self.pre += [f"def {h}({a}: {ann}, {b}):", f"    mon.write({a})", f"    return {body}"]
        x = self.name()
        v = self.name("n")
        arg = self.val(t)
        how = self.draw(st.sampled_from(["lit", "var"]))
        lines = [f"{v} = {arg}"] if how == "var" else []
        a1 = v if how == "var" else arg
        lines += [f"{x} = {h}({a1}, {self.val('int')})", f"mon.write({x})"]
        if self.draw(st.booleans()):
            lines += [f"mon.write({h}({a1}, {self.val('int')}))"]   # same signature again
        self.out(target, lines)
        return "annotation_mismatch"

    def s_list_join(self, target):
        l = self.name("l")
        elems = [self.val(self.draw(st.sampled_from(["int", "float"]))) for _ in range(self.draw(st.integers(1, 4)))]
        i = self.draw(st.integers(-len(elems), len(elems) - 1))
        x = self.name()
        self.out(target, [f"{l} = [{', '.join(elems)}]", f"{x} = {l}[{i}]", f"mon.write({x})", f"mon.write({l}[{self.draw(st.integers(0, len(elems) - 1))}] * 2)"])
        return "list_join"

    def s_string_promotion(self, target):
        s, n = self.name("s"), self.name("n")
        self.out(target, [f"{n} = {self.val('int')}", f"{s} = {self.val('str')}", f"{s} = {s} + str({n})", f"mon.write({s})",
                          f"{s} += {self.val('str')}", f"mon.write({s})", f"mon.write(\"{self.draw(st.sampled_from(['v=', 'x', '']))}\" + {s})"])
        return "string_promotion"

    def s_tuple(self, target):
        a, b = self.name(), self.name()
        t1, t2 = self.draw(st.sampled_from(["int", "float", "str"])), self.draw(st.sampled_from(["int", "float", "bool"]))
        self.out(target, [f"{a}, {b} = {self.val(t1)}, {self.val(t2)}", f"mon.write({a})", f"mon.write({b})"])
        if t1 == t2:
            self.out(target, [f"{a}, {b} = {b}, {a}", f"mon.write({a})", f"mon.write({b})"])
        if self.draw(st.booleans()):
            # shift register: a later right-hand element reads an earlier target; its type is the type *before* the statement
            p, c, n = self.name(), self.name(), self.name("n")
            form = self.draw(st.sampled_from(["p, c = n, p", "c, p = p, n", "p, c = (n + 1), (p * 2)"]))
            where = self.draw(st.sampled_from(["top", "helper"]))
            stmt = form.replace("p", "\0").replace("c", c).replace("n", n).replace("\0", p)
            if where == "top":
                self.out(target, [f"{p} = {self.val('float')}", f"{n} = {self.val('int')}", stmt, f"mon.write({c})", f"mon.write({p})"])
            else:
                h = self.name("h")
                self.pre += [f"def {h}({n}):", f"    {p} = {self.val('float')}", "    " + stmt, f"    return {c}"]
                x = self.name()
                self.out(target, [f"{x} = {h}({self.val('int')})", f"mon.write({x})"])
        return "tuple_assign"

    def s_cross_pass(self, target):
        """value computed in pass k printed in pass k+1 (declared in the prologue)."""
        x = self.name()
        t = self.draw(st.sampled_from(["int", "float", "str"]))
        init = self.val(t)
        upd = {"int": f"{x} + analog_read(\"A0\")", "float": f"{x} + 0.5", "str": f"{x} + \"+\""}[t]
        if t == "int":
            self.ana_reads += 3
        self.body += [f"{x} = {init}"]
        self.loop += [f"mon.write({x})", f"{x} = {upd}"]
        return "cross_pass"

    def s_mixed_arith(self, target):
        a, b, c = self.name(), self.name(), self.name()
        self.out(target, [f"{a} = {self.val('int')}", f"{b} = {self.val('float')}", f"{c} = {a} + {b}", f"mon.write({c})", f"{c} = {a} * 2", f"mon.write({c})",
                          f"mon.write({a} * {b})", f"mon.write(float({a}))", f"mon.write(int({b}))"])
        # every operator with an int on one side and a float on the other: the result is a float whichever side the float is on
        ops = self.draw(st.lists(st.sampled_from(["+", "-", "*", "/", "//", "%"]), min_size=1, max_size=3, unique=True))
        for op in ops:
            d = self.name()
            lhs, rhs = (a, self.draw(st.sampled_from(["2.5", "0.75", "1.5", b]))) if self.draw(st.booleans()) else (b, self.draw(st.sampled_from(["2", "3", a])))
            if op in ("/", "//", "%") and rhs in (a, b):
                rhs = "2.5" if lhs == a else "2"
            where = self.draw(st.sampled_from(["top", "helper", "loop"]))
            if where == "top":
                self.out(target, [f"{d} = {lhs} {op} {rhs}", f"mon.write({d})"])
            elif where == "helper":
                h, pa, pb = self.name("h"), self.name("a"), self.name("b")
                self.pre += [f"def {h}({pa}: int, {pb}: float):", f"    return {pa if lhs == a else pb} {op} {rhs if rhs not in (a, b) else (pa if rhs == a else pb)}"]
                self.out(target, [f"{d} = {h}({a}, {b})", f"mon.write({d})"])
            else:
                self.out(target, ["for q in range(2):", f"    {d} = {lhs} {op} {rhs}", f"mon.write({d})"])
        return "mixed_arith"

    def s_device_getter(self, target):
        """values read back from device state keep their type when stored in a variable."""
        if not getattr(self, "_mot", False):
            self._mot = True
            self.pre.insert(0, "from Reduino.Actuators import DCMotor, Servo")
            self.body[:0] = ["mot = DCMotor(2, 4, 3)", "srv = Servo(6)"]
        x = self.name()
        sp = self.draw(st.sampled_from(["0.5", "-0.25", "1.0", "0.75"]))
        which = self.draw(st.sampled_from(["get_speed", "get_applied_speed", "get_mode", "servo_read", "servo_read_us"]))
        if which in ("get_speed", "get_applied_speed"):
            self.out(target, [f"mot.set_speed({sp})", f"{x} = mot.{which}()", f"mon.write({x})", f"mon.write({x} * 2)"])
        elif which == "get_mode":
            self.out(target, [f"mot.set_speed({sp})", f"{x} = mot.get_mode()", f"mon.write({x})", f"mon.write({x} + '!')"])
        elif which == "servo_read":
            self.out(target, [f"srv.write({self.draw(st.sampled_from(['45', '90.5', '12.25']))})", f"{x} = srv.read()", f"mon.write({x})"])
        else:
            self.out(target, [f"srv.write_us({self.draw(st.sampled_from(['1500', '1000.5']))})", f"{x} = srv.read_us()", f"mon.write({x})"])
        return "device_getter"

    def s_nested_hoist(self, target):
        """the same name is hoisted out of an inner if/else (one type) and an outer one (joined type)."""
        x = self.name()
        t_in, t_out = self.draw(st.sampled_from([("int", "float"), ("float", "int"), ("int", "int"), ("int", "str"), ("bool", "int")]))
        if t_in != "str" and t_out == "str":
            t_in = "str"
        c1, c2 = self.name("c"), self.name("c")
        self.out(target, [f"{c1} = {self.cond()}", f"{c2} = {self.cond()}", f"if {c1}:", f"    if {c2}:", f"        {x} = {self.val(t_in)}", "    else:", f"        {x} = {self.val(t_in)}",
                          "else:", f"    {x} = {self.val(t_out)}", f"mon.write({x})"])
        return "nested_hoist"

    def s_same_local_two_helpers(self, target):
        """two helpers first-assign a local of the same name inside if/else with different types."""
        h1, h2, a = self.name("h"), self.name("h"), self.name("a")
        t1, t2 = self.draw(st.sampled_from([("str", "float"), ("float", "str"), ("int", "float"), ("float", "int"), ("bool", "float")]))
        r = self.draw(st.sampled_from(["r", "res", "tmp"]))
        for h, t in ((h1, t1), (h2, t2)):
            # the first assignment sits in if/else arms, in a for body or in a while body: each is hoisted by another code path
            how = self.draw(st.sampled_from(["ifelse", "ifelse", "for", "while"]))
            if how == "ifelse":
                self.pre += [f"def {h}({a}):", f"    if {a} > 500:", f"        {r} = {self.val(t)}", "    else:", f"        {r} = {self.val(t)}", f"    return {r}"]
            elif how == "for":
                self.pre += [f"def {h}({a}):", "    for q in range(2):", f"        {r} = {self.val(t)}", f"    return {r}"]
            else:
                self.pre += [f"def {h}({a}):", "    wq = 2", "    while wq > 0:", "        wq = wq - 1", f"        {r} = {self.val(t)}", f"    return {r}"]
        x, y = self.name(), self.name()
        self.ana_reads += 2
        self.out(target, [f"{x} = {h1}(analog_read(\"A0\"))", f"mon.write({x})", f"{y} = {h2}(analog_read(\"A0\"))", f"mon.write({y})"])
        return "same_local_two_helpers"

    # ---- classes of open findings (off by default)
    def s_shadow(self, target):
        """a name bound in an inner scope (comprehension variable, helper parameter, helper local) must not change the type the
        outer name is known by: values derived from the outer name afterwards keep its type."""
        x = self.name()
        t = self.draw(st.sampled_from(["float", "float", "str", "bool", "int"]))
        lines = [f"{x} = {self.val(t)}"]
        kind = self.draw(st.sampled_from(["comp", "comp_expr", "param", "local", "local_nested"]))
        if kind in ("comp", "comp_expr"):
            l = self.name("l")
            a = self.draw(st.integers(1, 4))
            body = x if kind == "comp" else self.draw(st.sampled_from([f"{x} * 2", f"{x} + 1", f"({x} * {x})"]))
            lines += [f"{l} = [{body} for {x} in range({a})]", f"mon.write({l}[{self.draw(st.integers(0, a - 1))}])"]
        elif kind == "param":
            h = self.name("h")
            if self.draw(st.booleans()):
                self.pre.append(lines.pop())  # the top-level name exists before the def is parsed
            self.pre += [f"def {h}({x}: int):", f"    return {x} + 1"]
            lines += [f"mon.write({h}({self.val('int')}))"]
        elif kind == "local_nested":
            # the helper binds the name only inside nested blocks: still a local of the helper
            h, a = self.name("h"), self.name("a")
            if self.draw(st.booleans()):
                self.pre.append(lines.pop())
            body = self.draw(st.sampled_from([
                [f"    if {a} > 1:", f"        {x} = {a} * 2", "    else:", f"        {x} = 1", f"    return {x} + 1"],
                [f"    for q in range(2):", f"        {x} = {a} + q", f"    return {x} + 1"],
                [f"    if {a} > 1:", f"        {x} = {a} * 2", f"        mon.write({x})", f"    return {a}"],
            ]))
            self.pre += [f"def {h}({a}: int):"] + body
            lines += [f"mon.write({h}({self.draw(st.sampled_from(['3', '5', '0']))}))"]
        else:
            h, a = self.name("h"), self.name("a")
            if self.draw(st.booleans()):
                self.pre.append(lines.pop())
            self.pre += [f"def {h}({a}: int):", f"    {x} = {a} * 2", f"    return {x} + 1"]
            lines += [f"mon.write({h}({self.val('int')}))"]
        y = self.name()
        use = {"float": [f"{y} = {x} + 1", f"{y} = {x}", f"{y} = {x} * 2"], "int": [f"{y} = {x} + 1", f"{y} = {x}"], "str": [f"{y} = {x}", f"{y} = {x} + \"!\""],
               "bool": [f"{y} = {x}"]}[t]
        lines += [self.draw(st.sampled_from(use)), f"mon.write({y})", f"mon.write({x})"]
        if t != "bool" and self.draw(st.booleans()):
            g, b = self.name("h"), self.name("a")
            ann = {"float": "float", "str": "str", "int": "int"}[t]
            self.pre += [f"def {g}({b}: {ann}):", f"    return {b}"]
            z = self.name()
            lines += [f"{z} = {g}({x})", f"mon.write({z})"]
        self.out(target, lines)
        return "shadow_" + kind

    def s_promoted_param(self, target):
        """un-annotated parameter that the body itself re-binds to a float: one variant serves int, bool and float callers."""
        h, a = self.name("h"), self.name("a")
        form = self.draw(st.sampled_from(["mul", "add", "add_write"]))
        body = {"mul": [f"    {a} = {a} * 0.5", f"    return {a}"], "add": [f"    {a} = {a} + 0.25", f"    return {a} * 2"],
                "add_write": [f"    {a} = {a} + 0.25", f"    mon.write({a})", f"    return {a}"]}[form]
        self.pre += [f"def {h}({a}):"] + body
        iv, fv = self.name("n"), self.name("n")
        lines = [f"{iv} = {self.val('int')}", f"{fv} = {self.val('float')}"]
        kinds = self.draw(st.lists(st.sampled_from(["ilit", "ivar", "fvar", "flit", "blit", "iexpr", "fexpr"]), min_size=2, max_size=4))
        for kd in kinds:
            arg = {"ilit": self.val("int"), "ivar": iv, "fvar": fv, "flit": self.val("float"), "blit": self.val("bool"), "iexpr": f"({iv} + 1)", "fexpr": f"({fv} * 2.0)"}[kd]
            x = self.name()
            pos = self.draw(st.sampled_from(["assign", "write", "stmt", "expr"]))
            lines += {"assign": [f"{x} = {h}({arg})", f"mon.write({x})"], "write": [f"mon.write({h}({arg}))"], "stmt": [f"{h}({arg})"],
                      "expr": [f"{x} = {h}({arg}) + 1", f"mon.write({x})"]}[pos]
        self.out(target, lines)
        return "promoted_param"

    def s_aug_promote(self, target):
        """an augmented assignment whose operator (true division) or operand (a float, a bool sum) widens the target: a parameter, or a
        variable first bound inside a block and declared by hoisting - the forms where the declaration follows the inferred type"""
        op, rhs = self.draw(st.sampled_from([("/=", "2"), ("/=", "4"), ("/=", "8"), ("+=", "0.25"), ("-=", "0.5"), ("*=", "0.5"), ("*=", "1.5"), ("/=", "2.0"), ("+=", "True")]))
        where = self.draw(st.sampled_from(["param", "param", "for", "while", "branch"]))
        first = "True" if rhs == "True" else None
        if where == "param":
            h, a = self.name("h"), self.name("a")
            tail = self.draw(st.sampled_from([[f"    return {a}"], [f"    mon.write({a})", f"    return {a}"], [f"    return {a} + 1"]]))
            self.pre += [f"def {h}({a}):", f"    {a} {op} {rhs}"] + tail
            x = self.name()
            arg = first or self.draw(st.sampled_from(["5", "7", "-3", "1", "9"]))
            pos = self.draw(st.sampled_from(["assign", "write", "expr"]))
            self.out(target, {"assign": [f"{x} = {h}({arg})", f"mon.write({x})"], "write": [f"mon.write({h}({arg}))"], "expr": [f"{x} = {h}({arg}) * 2", f"mon.write({x})"]}[pos])
        elif where == "for":
            x, k = self.name(), self.name("k")
            self.out(target, [f"for {k} in range({self.draw(st.integers(1, 3))}):", f"    {x} = {first or k + ' + 1'}", f"    {x} {op} {rhs}", f"    mon.write({x})", f"mon.write({x})"])
        elif where == "while":
            x, w = self.name(), self.name("w")
            self.out(target, [f"{w} = {self.draw(st.integers(1, 3))}", f"while {w} > 0:", f"    {x} = {first or w + ' * 3'}", f"    {x} {op} {rhs}", f"    {w} = {w} - 1", f"mon.write({x})"])
        else:
            x, c = self.name(), self.name("c")
            self.out(target, [f"{c} = {self.cond()}", f"if {c}:", f"    {x} = {first or self.val('int')}", f"    {x} {op} {rhs}", f"    mon.write({x})", f"if {c}:", f"    mon.write({x})"])
        return "aug_promote_" + where

    def s_recursive(self, target):
        """a recursive helper whose base case returns a float / bool: the type of the self-call's result (stored in a local, used in an expression,
        returned directly) is the helper's own return type"""
        h, n, r_ = self.name("h"), self.name("a"), self.name("r")
        base = self.draw(st.sampled_from(["0.5", "1.25", "True", "2.5", "0.0"]))
        form = self.draw(st.sampled_from(["local", "local_expr", "direct", "local_then_write", "two_locals"]))
        body = {"local": [f"    {r_} = {h}({n} - 1)", f"    return {r_}"],
                "local_expr": [f"    {r_} = {h}({n} - 1) + 1", f"    return {r_}"],
                "direct": [f"    return {h}({n} - 1) + 1"],
                "local_then_write": [f"    {r_} = {h}({n} - 1)", f"    mon.write({r_})", f"    return {r_} * 2"],
                "two_locals": [f"    {r_} = {h}({n} - 1)", f"    {r_}b = {r_}", f"    return {r_}b"]}[form]
        self.pre += [f"def {h}({n}):", f"    if {n} <= 0:", f"        return {base}"] + body
        x = self.name()
        self.out(target, [f"{x} = {h}({self.draw(st.integers(0, 3))})", f"mon.write({x})"])
        return "recursive"

    def s_nested_call_position(self, target):
        """the only float-typed call of an un-annotated helper sits inside another expression (a conversion, an operator, another call, a list,
        a comparison): the helper still needs its float variant"""
        h, a, g = self.name("h"), self.name("a"), self.name("n")
        body = self.draw(st.sampled_from([f"    return {a} * 2", f"    return {a} + 1", f"    return {a}"]))
        self.pre += [f"def {h}({a}):", body]
        x = self.name()
        c = f"{h}({g})"
        form = self.draw(st.sampled_from([f"str({c})", f"int({c} * 4)", f"float({c})", f"{c} + 1", f"abs({c})", f"max({c}, 1)", f"{h}({c})", f"[{c}][0]", f"{c} > 3", f"-{c}",
                                          f"1 if {c} > 3 else 0", f"len(str({c}))", f"{c} * {c}", f"str({c}) + '!'"]))
        lines = [f"{g} = {self.val('float')}"]
        # (a second call site with an int argument would be the open multi_signature class)
        lines += [f"{x} = {form}", f"mon.write({x})"]
        self.out(target, lines)
        return "nested_call_position"

    def s_retype(self, target):
        x = self.name()
        form = self.draw(st.sampled_from(["assign", "aug", "swap"]))
        if form == "assign":
            self.out(target, [f"{x} = {self.val('int')}", f"{x} = {x} + {self.val('float')}", f"mon.write({x})"])
        elif form == "aug":
            self.out(target, [f"{x} = {self.val('int')}", f"{x} += {self.val('float')}", f"mon.write({x})"])
        else:
            y = self.name()
            self.out(target, [f"{x} = {self.val('int')}", f"{y} = {self.val('float')}", f"{x}, {y} = {y}, {x}", f"mon.write({x})", f"mon.write({y})"])
        return "retype"

    def s_multi_signature(self, target):
        h, a = self.name("h"), self.name("a")
        self.pre += [f"def {h}({a}):", f"    return {a} + {a}"]
        x, y = self.name(), self.name()
        self.out(target, [f"{x} = {h}({self.val('int')})", f"mon.write({x})", f"{y} = {h}({self.val('float')})", f"mon.write({y})"])
        return "multi_signature"

    def s_unannotated_param(self, target):
        h, a = self.name("h"), self.name("a")
        self.pre += [f"def {h}({a}):", f"    return {a} * 2"]
        self.out(target, [f"mon.write({h}({self.val('float')}))"])
        return "unannotated_param"

    def s_branch_in_loop(self, target):
        x, k = self.name(), self.name("k")
        self.out(target, [f"for {k} in range(3):", f"    if {k} == 0:", f"        {x} = {self.val('int')}", f"    mon.write({x})"])
        return "branch_in_loop"

    def s_float_minmaxabs(self, target):
        x = self.name()
        f = self.draw(st.sampled_from(["abs({a})", "max({a}, {b})", "min({a}, {b})"]))
        self.out(target, [f"{x} = " + f.format(a=self.val("float"), b=self.val("float")), f"mon.write({x})"])
        return "float_minmaxabs"

    def s_main_loop_first_assign(self, target):
        x = self.name()
        self.loop += [f"{x} = {self.val('float')}", f"mon.write({x})"]
        return "main_loop_first_assign"


SAFE = ["if_else_join", "ifexp_join", "float_first", "branch_hoist", "elif_hoist", "for_hoist", "while_hoist", "return_join", "annotated_param",
        "list_join", "string_promotion", "tuple", "cross_pass", "mixed_arith", "device_getter", "nested_hoist", "same_local_two_helpers", "shadow", "promoted_param", "nested_call_position", "aug_promote", "annotation_mismatch", "recursive"]
OPEN = ["retype", "multi_signature", "unannotated_param", "branch_in_loop", "float_minmaxabs", "main_loop_first_assign"]


def program(off):
    kinds = SAFE + [k for k in OPEN if k not in off]

    @st.composite
    def build(draw):
        b = Builder(draw, off)
        labels = []
        for _ in range(draw(st.integers(2, 6))):
            k = draw(st.sampled_from(kinds))
            target = b.loop if (draw(st.booleans()) and k not in ("cross_pass", "main_loop_first_assign")) and False else b.body
            labels.append(getattr(b, "s_" + k)(target))
        src = HEAD + "\n".join(b.pre) + ("\n" if b.pre else "") + "\n".join(b.body) + "\n"
        if b.loop:
            src += "while True:\n" + "\n".join("    " + ln for ln in b.loop) + "\n"
        n = draw(st.integers(1, 3)) if b.loop else 0
        reads = b.ana_reads + 3 * n + 2
        tape = {"analog": {"14": draw(st.lists(st.sampled_from([0, 50, 150, 400, 600, 850, 950, 1023]), min_size=reads, max_size=reads))}, "digital": {}}
        return {"src": src, "n": n, "tape": tape, "labels": labels}

    return build()


DECL = re.compile(r"^\s*(?:const\s+)?(int|float|bool|String|long|double)\s+([A-Za-z_]\w*)\s*(?:=|;)", re.M)
HOLDS = {"int": {"int", "float", "long", "double"}, "float": {"float", "double"}, "bool": {"bool", "int", "long", "float", "double"}, "str": {"String"}}


def static_type_check(cpp, observed):
    decls = {}
    for m in DECL.finditer(cpp):
        decls.setdefault(m.group(2), set()).add(m.group(1))
    for name, types in sorted(observed.items()):
        if name not in decls or name.startswith("__") or len(decls[name]) > 1:
            continue  # the same identifier declared with different types in different functions: judged by the differential only
        for t in types:
            if t not in HOLDS:
                continue
            for ctype in decls[name]:
                if ctype not in HOLDS[t]:
                    return f"name {name!r} holds a Python {t} but is declared {ctype}"
    return None


_FN = re.compile(r"^[A-Za-z_][\w<>:, ]*?\b([A-Za-z_]\w*)\(([^)]*)\) \{\n(.*?)^\}", re.M | re.S)


def scope_rule(src, cpp):
    """Python's own symbol tables say which names a helper binds locally; each of them that also exists at top level must be declared inside the
    helper's C++ body (or be a parameter / a loop variable declared by its `for`), otherwise the helper writes to the global of the same name."""
    import symtable

    try:
        top = symtable.symtable(src, "<script>", "exec")
    except SyntaxError:
        return None
    globs = {sym.get_name() for sym in top.get_symbols() if sym.is_assigned()}
    bodies = {}
    for m in _FN.finditer(cpp):
        bodies.setdefault(m.group(1), []).append((m.group(2), m.group(3)))
    for child in top.get_children():
        if child.get_type() != "function" or child.get_name() not in bodies:
            continue
        locs = [sym.get_name() for sym in child.get_symbols() if sym.is_local() and sym.is_assigned() and not sym.is_parameter()]
        for name in sorted(set(locs) & globs):
            for params, body in bodies[child.get_name()]:
                if re.search(rf"\b{name}\b", params):
                    continue
                if not re.search(rf"\b{name}\s*[-+*/%&|^]?=[^=]", body):
                    continue   # never written in this variant (constant-folded away): nothing can leak
                if not re.search(rf"(?:\b(?:int|float|bool|String|long|double|char|auto|unsigned)|>)\s+{name}\b", body):
                    return f"helper {child.get_name()!r} binds {name!r} locally in Python, but its C++ body assigns {name!r} without declaring it (the top-level {name!r} is overwritten)"
    return None


def _tape(t):
    return {k: {int(p): v for p, v in d.items()} for k, d in t.items()}


def evaluate_case(case, off=frozenset()):
    out = diff.evaluate(case["src"], case["n"], _tape(case["tape"]), off=off)
    if out.status == "ok":
        msg = static_type_check(out.cpp, out.host.get("observed", {}))
        if msg:
            out.status, out.bucket, out.detail = "FAIL", "declared-type-too-narrow", msg
    if out.status == "ok" and out.cpp:
        msg = scope_rule(case["src"], out.cpp)
        if msg:
            out.status, out.bucket, out.detail = "FAIL", "helper-local-leaks-into-global", msg
    return out


def nontrivial(case, out):
    if out.status != "ok":
        return False
    multi = any(len(set(v) & {"int", "float", "str", "bool"}) >= 2 for v in out.host.get("observed", {}).values())
    return multi or bool(set(case["labels"]) & {"branch_hoist", "elif_hoist", "for_hoist", "while_hoist", "return_join", "if_else_join"})


@st.composite
def scope_script(draw):
    """a helper that binds the name of a top-level variable through one of Python's binding constructs, at nesting depth 1-3; judged by the scope
    rule only (some of these constructs - try/except - are open findings of their own and do not compile)"""
    g = draw(st.sampled_from(["level", "total", "k", "idx"]))
    gval, lval = draw(st.sampled_from([("3", "0.25"), ("0.5", "7"), ("3", "9"), ("'a'", "2"), ("True", "1.5")]))
    how = draw(st.sampled_from(["except", "try_body", "try_else", "finally", "for_body", "while_body", "if_in_for", "else_arm", "elif_arm", "tuple", "aug_after", "for_var", "nested3"]))
    b = {"except": ["try:", "    q = v + 1", "except Exception:", f"    {g} = {lval}", f"    q = {g}"],
         "try_body": ["try:", f"    {g} = {lval}", f"    q = {g}", "except Exception:", "    q = 0"],
         "try_else": ["try:", "    q = v", "except Exception:", "    q = 0", "else:", f"    {g} = {lval}", f"    q = {g}"],
         "finally": ["try:", "    q = v", "finally:", f"    {g} = {lval}"],
         "for_body": ["for j in range(2):", f"    {g} = {lval}", f"q = {g}"],
         "while_body": ["w = 1", "while w > 0:", "    w = w - 1", f"    {g} = {lval}", f"q = {g}"],
         "if_in_for": ["for j in range(2):", "    if j > 0:", f"        {g} = {lval}", "q = v"],
         "else_arm": ["if v > 100:", "    q = 1", "else:", f"    {g} = {lval}", f"    q = {g}"],
         "elif_arm": ["if v > 100:", "    q = 1", "elif v > 50:", "    q = 2", "elif v > -5:", f"    {g} = {lval}", f"    q = {g}", "else:", "    q = 3"],
         "tuple": [f"{g}, q = {lval}, v"],
         "aug_after": [f"{g} = {lval}", f"{g} += 1", f"q = {g}"],
         "for_var": [f"for {g} in range(3):", f"    q = {g}"],
         "nested3": ["for j in range(2):", "    if j >= 0:", "        while j > 5:", f"            {g} = {lval}", "            j = j - 1", "q = v"]}[how]
    pre = ["q = 0"] if how in ("if_in_for", "nested3", "for_var", "finally", "except", "try_else") else []
    where = draw(st.sampled_from(["before", "after"]))
    lines = [HEAD.rstrip("\n")] + ([f"{g} = {gval}"] if where == "before" else [])
    lines += ["def helper(v):"] + ["    " + x for x in pre + b] + ["    return q"]
    lines += ([f"{g} = {gval}"] if where == "after" else []) + ["r = helper(2)", "mon.write(r)", f"mon.write({g})"]
    return {"src": "\n".join(lines) + "\n", "how": how}


def run_scope(name, seed, tier, n):
    r = Result()
    found = {}

    @hseed(seed)
    @hyp_settings(n, phases=(Phase.generate,))
    @given(scope_script())
    def prop(case):
        from vlib import fwbuild as fb

        try:
            cpp = fb.transpile(case["src"])
        except ValueError:
            r.count("scope:rejected:" + case["how"]); r.case(case, False)
            return
        except Exception as e:
            r.count("scope:rejected-other"); r.case(case, False)
            return
        r.count("scope:" + case["how"])
        msg = scope_rule(case["src"], cpp)
        r.case(case, True)
        if msg:
            found.setdefault("helper-local-leaks-into-global", (case, msg))

    prop()
    for b, (case, msg) in found.items():
        r.fail(b, {"src": case["src"], "n": 0, "tape": {"analog": {}, "digital": {}}, "scope_only": True}, "names a helper binds are its own (Python scoping)", msg)
    return r


def plan(tier):
    n = 40 if tier == "quick" else 800
    return [(f"gen-{i}", {"n": n}) for i in range(16)] + [(f"scope-{i}", {"n": 60 if tier == "quick" else 1500}) for i in range(2)]


def run_shard(name, seed, tier, n):
    if name.startswith("scope"):
        return run_scope(name, seed, tier, n)
    r = Result()
    found = {}

    @hseed(seed)
    @hyp_settings(n, phases=(Phase.generate,))
    @given(program(OPEN_CLASSES))
    def prop(case):
        out = evaluate_case(case, off={"float_not_f32_exact", "int_overflow"})
        r.count("status:" + out.status)
        if out.status in ("rejected", "not-well-defined", "excluded-class", "rejected-other"):
            r.count(out.status + ":" + out.detail[:50])
        for l in case["labels"]:
            r.count("scenario:" + l)
        c = {k: case[k] for k in ("src", "n", "tape")}
        r.case(c, nontrivial(case, out))
        if out.status == "FAIL":
            key = out.bucket
            if key not in found or len(case["src"]) < len(found[key][0]["src"]):
                found[key] = (c, out)

    prop()
    for bucket, (c, out) in found.items():
        c2, o2 = shrink_lines(c, bucket)
        r.fail(o2.bucket, c2, "same values as CPython in every name / parameter / result; declared types hold them", o2.detail)
    return r


def shrink_lines(case, bucket, max_evals=40):
    """Delete top-level scenario chunks (groups of lines) while the same bucket persists."""
    lines = case["src"].split("\n")
    best, best_out = case, None
    evals = 0
    i = len(HEAD.split("\n")) - 1
    while i < len(lines) and evals < max_evals:
        # a chunk = this line plus following indented / continuation lines
        j = i + 1
        while j < len(lines) and (lines[j].startswith((" ", "else", "elif")) and lines[j].strip()):
            j += 1
        cand_lines = lines[:i] + lines[j:]
        cand = dict(case, src="\n".join(cand_lines))
        evals += 1
        o = evaluate_case(cand)
        if o.status == "FAIL" and o.bucket == bucket:
            lines, best, best_out = cand_lines, cand, o
        else:
            i = j
    if best_out is None:
        best_out = evaluate_case(best)
    return best, best_out


def replay(case):
    if case.get("scope_only"):
        from vlib import fwbuild as fb

        try:
            msg = scope_rule(case["src"], fb.transpile(case["src"]))
        except ValueError:
            return []
        return [{"bucket": "helper-local-leaks-into-global", "case": case, "expected": "names a helper binds are its own (Python scoping)", "observed": msg}] if msg else []
    o = evaluate_case(case)
    if o.status == "FAIL":
        return [{"bucket": o.bucket, "case": case, "expected": "same values as CPython; declared types hold them", "observed": o.detail}]
    return []
