"""C04 - actuator commands: firmware drives pins exactly as the host simulation predicts.

Histories of Led / RGBLed / Servo / DCMotor operations (Hypothesis op lists = rule-based machine without
preconditions) with arguments given as literals or as run-time values derived from the tape, interleaved with getter
reads.  One compile per history, several tapes per compile.
 (a) in-range histories: per-pin signal, delays and getter values must equal what the instrumented host classes compute;
 (b) out-of-range histories (host raises, firmware clamps): no pin / servo command may carry a value outside the
     documented limits and getters stay inside them.
"""
from __future__ import annotations

import re

from hypothesis import Phase, given, seed as hseed, strategies as st

from vlib import diff, fwbuild as fb, hostexec as hx, shrink, tracecmp as tc
from vlib.runner import Result, hyp_settings

ID = "C04"
LEVEL = "translation_validation"
RULE = (
    "Hypothesis generates actuator histories: 0-2 Leds, 0-1 RGBLed, 0-2 Servos (default and custom angle/pulse bounds), 0-1 DCMotor on distinct pins, "
    "3-25 operations drawn from every public method (on/off/toggle/set_brightness/blink/fade_in/fade_out/flash_pattern; set_color/on/off/fade/blink; "
    "write/write_us; set_speed/backward/stop/coast/invert/ramp/run_for) with in-range, boundary values given as literals or as run-time expressions (a quarter of the arguments repeat exactly a value an earlier command of the script used) "
    "of analog_read() values, and getter reads (get_state, get_brightness, read, read_us, get_speed, get_applied_speed, is_inverted, get_mode) after "
    "state changes; each history is compiled once and run with 3 (quick) / 8 (thorough) tapes. Oracle (a): trace equality with the instrumented "
    "host classes (per-pin signal, delays < 1 ms apart, motor duty +-1, getter values). Oracle (b), clamp mode with out-of-range arguments (literals and run-time values, also inside flash patterns): the firmware must drive the pins exactly like the twin script whose out-of-range arguments are replaced by their documented clamp (literal, or min(max(x, lo), hi) for run-time values), and every AW in "
    "0..255, servo angle/pulse inside the configured bounds, |speed| <= 1. Non-trivial = >=2 operations on one device incl. a state-dependent one "
    "(toggle, fade, blink, invert, ramp) or a getter read after a state change. distinct = distinct script."
)
ASSUMPTIONS = ["mock core observes pin/servo commands; real PWM/timer behaviour is not modelled", "RGB fade with an even number of steps can hit exact .5 ties (open finding): generated fades use odd step counts; motor speeds are multiples of 0.01 (|speed| < 1/510 is an open finding)"]

HEAD = ("from Reduino.Actuators import Led, RGBLed, Servo, DCMotor\nfrom Reduino.Communication import SerialMonitor\nfrom Reduino.Core import analog_read\nfrom Reduino.Utils import sleep\n"
        "mon = SerialMonitor(9600)\n")


class M:
    def __init__(self, draw, clamp=False):
        self.draw, self.clamp = draw, clamp
        self.floats = draw(st.booleans())  # this history passes float-typed run-time values where whole numbers are usual
        self.lines = []
        self.devs = {}
        self.reads = 0
        self.state_dep = 0
        self.getter_after_change = 0
        self.changed = set()
        self.k = 0

    def rt(self, lo, hi, kind="int"):
        """Run-time value in [lo, hi] derived from the tape (or out of range in clamp mode)."""
        self.reads += 1
        self.k += 1
        v = f"r{self.k}"
        span = hi - lo + 1
        if self.clamp and self.draw(st.booleans()):
            self.lines.append(f"{v} = analog_read(\"A2\") * 3 - 1500")
            return f"__CL({v};{lo};{hi})__" if kind == "int" else f"__CL({v};-1.0;1.0)__"
        elif kind == "int" and self.floats and self.draw(st.integers(0, 3)) > 0:
            # a float-typed run-time value in [lo, hi] with a fractional part (multiples of 0.25): the host truncates / scales it as documented
            self.lines.append(f"{v} = {lo} + (analog_read(\"A2\") % {4 * span - 3}) * 0.25")
        elif kind == "int":
            self.lines.append(f"{v} = {lo} + analog_read(\"A2\") % {span}")
        else:  # speed in [-1, 1] as multiple of 0.01
            self.lines.append(f"{v} = (analog_read(\"A2\") % 201 - 100) * 0.01")
        return v

    def ival(self, lo, hi, small=False):
        used = self.__dict__.setdefault("used_ints", {}).setdefault((lo, hi), [])
        cand = [u for u in used if not small or u.lstrip("-").isdigit()]
        if cand and self.draw(st.integers(0, 3)) == 0:
            return cand[self.draw(st.integers(0, len(cand) - 1))]
        v = self._ival(lo, hi, small)
        used.append(v)
        return v

    def _ival(self, lo, hi, small=False):
        if self.clamp and self.draw(st.integers(0, 2)) == 0:
            return f"__CL({self.draw(st.sampled_from([-1, -300, hi + 1, hi + 45, hi + 500, 100000, -32768, lo - 1]))};{lo};{hi})__"
        mode = self.draw(st.sampled_from(["lit", "bound", "rt", "rt"] if self.floats else ["lit", "lit", "bound", "rt"]))
        if mode == "rt" and not small:
            return self.rt(lo, hi)
        if mode == "bound":
            return str(self.draw(st.sampled_from([lo, hi])))
        return str(self.draw(st.integers(lo, hi)))

    def speed(self):
        used = self.__dict__.setdefault("used_speeds", [])
        if used and self.draw(st.integers(0, 3)) == 0:
            # the very value (literal or run-time variable) an earlier command used: ramp to the present speed, set_speed twice, ...
            return used[self.draw(st.integers(0, len(used) - 1))]
        v = self._speed()
        used.append(v)
        return v

    def _speed(self):
        if "mot" in self.changed and not self.clamp and self.draw(st.integers(0, 5)) == 0:
            # an argument that reads the motor's own state: evaluated before the command takes effect, as a Python argument is
            self.state_dep += 1
            return self.draw(st.sampled_from(["mot.get_speed() * 0.5", "(0 - mot.get_speed())", "mot.get_applied_speed()", "(abs(mot.get_speed()) - 0.25)", "(mot.get_speed() * mot.get_speed())"]))
        if self.clamp and self.draw(st.integers(0, 2)) == 0:
            return f"__CL({self.draw(st.sampled_from([1.5, -1.5, 2, -7, 100.0, 1.01, -1.25]))};-1.0;1.0)__"
        mode = self.draw(st.sampled_from(["lit", "lit", "bound", "rt"]))
        if mode == "rt":
            return self.rt(0, 0, "speed")
        if mode == "bound":
            return str(self.draw(st.sampled_from([1.0, -1.0, 0.0, 1, -1, 0])))
        return repr(self.draw(st.integers(-100, 100)) / 100.0)

    def declare(self):
        for i in range(self.draw(st.integers(0, 2))):
            n = f"led{i}"
            self.devs[n] = ("led", [13, 12][i])
            self.lines.append(f"{n} = Led({[13, 12][i]})")
        if self.draw(st.booleans()):
            self.devs["rgb"] = ("rgb", (9, 10, 11))
            self.lines.append("rgb = RGBLed(9, 10, 11)")
        for i in range(self.draw(st.integers(0, 2))):
            n = f"srv{i}"
            custom = self.draw(st.booleans())
            if custom:
                a0 = self.draw(st.sampled_from([0, 10, 45])); a1 = self.draw(st.sampled_from([90, 170, 180, 270]))
                p0 = self.draw(st.sampled_from([500, 544, 1000])); p1 = self.draw(st.sampled_from([2000, 2400, 2500]))
                self.devs[n] = ("srv", (a0, a1, p0, p1))
                self.lines.append(f"{n} = Servo({6 + i}, min_angle={a0}, max_angle={a1}, min_pulse_us={p0}, max_pulse_us={p1})")
            else:
                self.devs[n] = ("srv", (0, 180, 544, 2400))
                self.lines.append(f"{n} = Servo({6 + i})")
        if self.draw(st.booleans()):
            self.devs["mot"] = ("mot", (2, 4, 3))
            self.lines.append("mot = DCMotor(2, 4, 3)")
        if not self.devs:
            self.devs["led0"] = ("led", 13)
            self.lines.append("led0 = Led(13)")

    def op(self):
        n = self.draw(st.sampled_from(sorted(self.devs)))
        kind, info = self.devs[n]
        L = self.lines
        small = lambda hi=4: str(self.draw(st.integers(0, hi)))
        if kind == "led":
            o = self.draw(st.sampled_from(["on", "off", "toggle", "set_brightness", "blink", "fade_in", "fade_out", "flash_pattern", "get"]))
            if o in ("on", "off"):
                L.append(f"{n}.{o}()")
            elif o == "toggle":
                L.append(f"{n}.toggle()"); self.state_dep += 1
            elif o == "set_brightness":
                if n in self.changed and not self.clamp and self.draw(st.integers(0, 4)) == 0:
                    L.append(f"{n}.set_brightness({self.draw(st.sampled_from(['255 - {d}.get_brightness()', '{d}.get_brightness() // 2', '({d}.get_brightness() + 40) % 256'])).format(d=n)})"); self.state_dep += 1
                else:
                    L.append(f"{n}.set_brightness({self.ival(0, 255)})")
            elif o == "blink":
                t = self.draw(st.integers(1, 3)) if not self.clamp else self.draw(st.integers(-1, 3))
                if not self.clamp and self.draw(st.integers(0, 7)) == 0:
                    t = self.draw(st.sampled_from([255, 256, 257, 300, 1000]))   # counts beyond a byte: nothing in the documentation caps them
                    L.append(f"{n}.blink({small(1)}, {t})" if self.draw(st.booleans()) else f"{n}.blink(duration_ms={small(1)}, times={t})"); self.state_dep += 1
                else:
                    L.append(f"{n}.blink({small(6)}, {t})" if self.draw(st.booleans()) else f"{n}.blink(duration_ms={small(6)}, times={t})"); self.state_dep += 1
            elif o in ("fade_in", "fade_out"):
                step = self.draw(st.sampled_from([50, 64, 100, 127, 255, 90])) if not self.clamp else self.draw(st.sampled_from([0, -5, 50, 300]))
                L.append(f"{n}.{o}({step}, {small(3)})"); self.state_dep += 1
            elif o == "flash_pattern":
                vals = [0, 1, 2, 128, 255, 7] + ([256, 300, 1000, -1, -300, 511] if self.clamp else [])
                pat = [self.draw(st.sampled_from(vals)) for _ in range(self.draw(st.integers(0, 4)))]
                items = ", ".join(str(v) if 0 <= v <= 255 else f"__CL({v};0;255)__" for v in pat)
                L.append(f"{n}.flash_pattern([{items}], {small(5)})")
            else:
                L.append(f"mon.write({n}.{self.draw(st.sampled_from(['get_state()', 'get_brightness()']))})")
                if n in self.changed:
                    self.getter_after_change += 1
                return
        elif kind == "rgb":
            o = self.draw(st.sampled_from(["set_color", "on", "on0", "off", "fade", "blink"]))
            c = lambda: self.ival(0, 255)
            if o == "set_color":
                L.append(f"rgb.set_color({c()}, {c()}, {c()})")
            elif o == "on":
                form = self.draw(st.integers(0, 6))
                L.append([f"rgb.on({c()}, {c()}, {c()})", f"rgb.on(blue={c()}, red={c()}, green={c()})", f"rgb.on({c()})", f"rgb.on({c()}, {c()})", f"rgb.on(green={c()})",
                          f"rgb.on({c()}, blue={c()})", f"rgb.on(blue={c()}, green={c()})"][form])   # omitted components default to 255
            elif o == "on0":
                L.append("rgb.on()")
            elif o == "off":
                L.append("rgb.off()")
            elif o == "fade":
                steps = self.draw(st.sampled_from([1, 3, 5, 7])) if not self.clamp else self.draw(st.sampled_from([0, -2, 3, 5]))
                dur = self.draw(st.sampled_from([0, 5, 10, 21, 30])) if not self.clamp else self.draw(st.sampled_from([-5, 0, 10]))
                L.append(f"rgb.fade({c()}, {c()}, {c()}, {dur}, {steps})"); self.state_dep += 1
                if dur == 0 and self.draw(st.booleans()):
                    # an instant fade directly followed by an operation that starts from / returns to the colour the fade left behind
                    L.append(f"rgb.blink({c()}, {c()}, {c()}, times=1, delay_ms=1)" if self.draw(st.booleans()) else f"rgb.fade({c()}, {c()}, {c()}, 10, 3)")
            else:
                t = self.draw(st.integers(1, 3)) if not self.clamp else self.draw(st.integers(-1, 2))
                big = not self.clamp and self.draw(st.integers(0, 7)) == 0
                if big:
                    t = self.draw(st.sampled_from([255, 256, 300, 1000]))
                L.append(f"rgb.blink({c()}, {c()}, {c()}, times={t}, delay_ms={small(1) if big else small(5)})"); self.state_dep += 1
        elif kind == "srv":
            a0, a1, p0, p1 = info
            o = self.draw(st.sampled_from(["write", "write", "write_us", "get", "get_us"]))
            if o == "write":
                L.append(f"{n}.write({self.ival(a0, a1)})")
            elif o == "write_us":
                L.append(f"{n}.write_us({self.ival(p0, p1)})")
            else:
                L.append(f"mon.write({n}.{'read()' if o == 'get' else 'read_us()'})")
                if n in self.changed:
                    self.getter_after_change += 1
                return
        else:
            o = self.draw(st.sampled_from(["set_speed", "set_speed", "backward", "backward0", "stop", "coast", "invert", "ramp", "run_for", "get"]))
            if o == "set_speed":
                L.append(f"mot.set_speed({self.speed()})")
            elif o == "backward":
                L.append(f"mot.backward({self.speed()})")
            elif o == "backward0":
                L.append("mot.backward()")
            elif o in ("stop", "coast"):
                L.append(f"mot.{o}()")
            elif o == "invert":
                L.append("mot.invert()"); self.state_dep += 1
                if self.draw(st.booleans()):
                    L.append("mon.write(mot.get_applied_speed())")   # the inverted reading, observed at once
                    self.getter_after_change += 1
            elif o == "ramp":
                d = self.draw(st.sampled_from([0, 10, 20, 40, 45, "int(abs(mot.get_speed()) * 40)"])) if not self.clamp else self.draw(st.sampled_from([-10, 0, 20]))
                L.append(f"mot.ramp({self.speed()}, {d})"); self.state_dep += 1
            elif o == "run_for":
                d = self.draw(st.sampled_from([0, 3, 10, "int(abs(mot.get_speed()) * 40)", "(5 if mot.get_mode() == 'drive' else 9)"])) if not self.clamp else self.draw(st.sampled_from([-3, 0, 5]))
                L.append(f"mot.run_for({d}, {self.speed()})")
            else:
                L.append(f"mon.write(mot.{self.draw(st.sampled_from(['get_speed()', 'get_applied_speed()', 'is_inverted()', 'get_mode()']))})")
                if "mot" in self.changed:
                    self.getter_after_change += 1
                return
        self.changed.add(n)


_CL = re.compile(r"__CL\(([^;()]+);([^;()]+);([^;()]+)\)__")


def render_clamp(src, clamped):
    """Out-of-range arguments are written as __CL(raw;lo;hi)__: the raw script passes `raw`, its twin passes the documented clamp of it
    (a literal for literals, min(max(raw, lo), hi) for run-time values). Both must drive the pins identically."""
    def rep(m):
        raw, lo, hi = m.group(1), m.group(2), m.group(3)
        if not clamped:
            return raw
        try:
            v = float(raw)
        except ValueError:
            return f"min(max({raw}, {lo}), {hi})"
        c = min(max(v, float(lo)), float(hi))
        return repr(c) if ("." in lo or "." in raw) else str(int(c))
    return _CL.sub(rep, src)


@st.composite
def history(draw, clamp=False, ntapes=3):
    m = M(draw, clamp)
    m.declare()
    for _ in range(draw(st.integers(3, 25))):
        m.op()
    in_loop = draw(st.integers(0, 3)) == 0
    body = m.lines
    ndecl = len([l for l in body if re.match(r"\w+ = (Led|RGBLed|Servo|DCMotor)\(", l)])
    if in_loop:
        src = HEAD + "\n".join(body[:ndecl]) + "\nwhile True:\n" + "\n".join("    " + l for l in body[ndecl:]) + "\n"
        n = draw(st.integers(1, 2))
    else:
        src = HEAD + "\n".join(body) + "\n"
        n = 0
    reads = (m.reads + 1) * max(1, n)
    tapes = [draw(st.lists(st.integers(0, 1023), min_size=reads, max_size=reads)) for _ in range(ntapes)]
    devs = {k: [v[0], list(v[1]) if isinstance(v[1], tuple) else v[1]] for k, v in m.devs.items()}
    return {"src": src, "n": n, "tapes": tapes, "clamp": clamp, "devs": devs, "nt": m.state_dep >= 1 and len(body) - ndecl >= 2 or m.getter_after_change >= 1}


def clamp_monitor(case, trace):
    devs = case["devs"]
    pwm_pins = set()
    servo = {}
    for n, (kind, info) in devs.items():
        if kind == "led":
            pwm_pins.add(info)
        elif kind == "rgb":
            pwm_pins.update(info)
        elif kind == "mot":
            pwm_pins.add(info[2])
        elif kind == "srv":
            servo[6 + int(n[-1])] = info
    for t, k, a in trace.events:
        p = a.split()
        if k == "AW" and int(p[0]) in pwm_pins and not 0 <= int(p[1]) <= 255:
            return ("unclamped-pwm", "analogWrite value in 0..255", f"AW {a}")
        if k == "SERVO_WRITE" and int(p[0]) in servo:
            a0, a1 = servo[int(p[0])][0], servo[int(p[0])][1]
            if not a0 <= int(p[1]) <= a1:
                return ("unclamped-servo-angle", f"angle in [{a0},{a1}]", f"SERVO_WRITE {a}")
        if k == "SERVO_US" and int(p[0]) in servo:
            p0, p1 = servo[int(p[0])][2], servo[int(p[0])][3]
            if not p0 <= int(p[1]) <= p1:
                return ("unclamped-servo-pulse", f"pulse in [{p0},{p1}]", f"SERVO_US {a}")
        if k == "DELAY" and int(p[0]) > 10**6:
            return ("absurd-delay", "bounded delay", f"DELAY {a}")
    return None


def evaluate(case, one_tape=None):
    """Returns (status, failures)."""
    src, n = render_clamp(case["src"], False), case["n"]
    mk = lambda b, e, o, tape: {"bucket": b, "case": dict(case, tapes=[tape]), "expected": str(e), "observed": str(o)}
    try:
        cpp = fb.transpile(src)
    except ValueError as e:
        return "rejected:" + str(e)[:40], []
    tapes = case["tapes"] if one_tape is None else [one_tape]
    with fb.Workdir("c4") as wd:
        try:
            exe = fb.build(cpp, wd, asan=case["clamp"])
        except fb.CompileError as e:
            return "FAIL", [mk("compile-error:" + diff.norm_err(str(e)), "compiles", str(e)[:300], tapes[0])]
        exe2 = None
        if case["clamp"] and "__CL(" in case["src"]:
            try:
                exe2 = fb.build(fb.transpile(render_clamp(case["src"], True)), wd, name="twin")
            except (ValueError, fb.CompileError):
                exe2 = None  # the in-range twin is rejected / does not build: no verdict from the pair (the monitor still applies)
        for tape in tapes:
            tp = {"analog": {16: tape}}
            trace = fb.run(exe, n, fb.make_tape(analog={16: tape}), wd)
            if trace.status != "ok":
                return "FAIL", [mk("firmware-" + trace.status, "runs to completion", trace.stderr[-300:], tape)]
            if case["clamp"]:
                bad = clamp_monitor(case, trace)
                if bad:
                    return "FAIL", [mk(bad[0], bad[1], bad[2], tape)]
                if exe2 is not None:
                    t2 = fb.run(exe2, n, fb.make_tape(analog={16: tape}), wd)
                    a = [x[1:] for x in tc._collapse(tc.fw_obs(trace), drop_reads=False, side="fw")]
                    b = [x[1:] for x in tc._collapse(tc.fw_obs(t2), drop_reads=False, side="fw")] if t2.status == "ok" else None
                    if b is not None and a != b:
                        i = next((i for i, (x, y) in enumerate(zip(a, b)) if x != y), min(len(a), len(b)))
                        return "FAIL", [mk("not-clamped-to-documented-limit", f"same pin activity as the script with pre-clamped arguments: event {i} {b[i] if i < len(b) else None}",
                                            f"{a[i] if i < len(a) else None}", tape)]
                continue
            host = hx.run_host(src, n, tp, {"instrument": False})
            if "error" in host:
                return "not-well-defined:" + host["error"][:50], []
            d = tc.compare(host["events"], trace)
            if d:
                m = re.search(r"host (\w+)\(.*? vs firmware (\w+)\(", d)
                kind = f"{m.group(1)}/{m.group(2)}" if m else ("time" if " time:" in d else "length")
                return "FAIL", [mk("diverge:" + kind, "firmware trace == host simulation", d, tape)]
    return "ok", []


def plan(tier):
    q = tier == "quick"
    units = [(f"sim-{i}", {"clamp": False, "n": 25 if q else 400, "ntapes": 3 if q else 8}) for i in range(12)]
    units += [(f"clamp-{i}", {"clamp": True, "n": 15 if q else 200, "ntapes": 3 if q else 8}) for i in range(4)]
    return units


def run_shard(name, seed, tier, clamp, n, ntapes):
    r = Result()
    found = {}

    @hseed(seed)
    @hyp_settings(n, phases=(Phase.generate,))
    @given(history(clamp=clamp, ntapes=ntapes))
    def prop(case):
        status, fails = evaluate(case)
        r.count(("clamp:" if clamp else "sim:") + status.split(":")[0])
        if status.startswith(("rejected", "not-well")):
            r.count(status)
        r.case({"src": render_clamp(case["src"], False), "n": case["n"], "tapes": case["tapes"][:1]} if len(r.samples) < 1 else {"h": hash(case["src"]) & 0xffffffff}, status == "ok" and case["nt"])
        r.count("runs", len(case["tapes"]) if status == "ok" else 1)
        for fl in fails:
            if fl["bucket"] not in found or len(case["src"]) < len(found[fl["bucket"]]["case"]["src"]):
                found[fl["bucket"]] = fl

    prop()
    for b, fl in found.items():
        # shrink the op list: delete non-declaration lines while the bucket persists
        case = fl["case"]
        lines = case["src"].split("\n")
        head = len(HEAD.split("\n")) - 1

        def still(cand_lines, case=case, b=b):
            c = dict(case, src="\n".join(cand_lines))
            st_, fls = evaluate(c)
            return bool(fls) and fls[0]["bucket"] == b

        body = lines[head:]
        keep_idx = [i for i, l in enumerate(body)]
        small, _ = shrink.shrink_list(body, lambda cand: still(lines[:head] + cand), max_evals=60)
        c2 = dict(case, src="\n".join(lines[:head] + small))
        st2, f2 = evaluate(c2)
        r.failures.append(f2[0] if f2 and f2[0]["bucket"] == b else fl)
    return r


def replay(case):
    return evaluate(case)[1][:1]
