// Mock Arduino runtime: trace, input tape, virtual clock, heap sampling, watchdog.
#include <Arduino.h>
#include <Wire.h>
#include <redu_lcd_base.h>
#include <stdarg.h>
#include <signal.h>
#include <unistd.h>
#include <sys/resource.h>
#ifdef REDU_ASAN
#include <sanitizer/allocator_interface.h>
#endif

namespace redu_mock {
unsigned long long now_us = 0;
static long events = 0;
static long event_budget = 200000;
static std::map<int, std::deque<long> > q_d, q_a, q_p;
static std::map<int, long> last_d, last_a, last_p;
static std::map<int, int> latch_d;
static std::deque<std::string> q_s;
static std::deque<long> q_j;

void ev(const char *fmt, ...) {
  if (++events > event_budget) { printf("%llu FW_HANG events\n", now_us); fflush(stdout); _exit(3); }
  printf("%llu ", now_us);
  va_list ap; va_start(ap, fmt); vprintf(fmt, ap); va_end(ap); putchar('\n');
}
std::string fmt_float(double v) {
  char buf[64];
  if (v != v) return "nan";
  if (isinf(v)) return v > 0 ? "inf" : "-inf";
  snprintf(buf, sizeof buf, "%.9g", v);
  std::string s(buf);
  if (s.find('.') == std::string::npos && s.find('e') == std::string::npos) s += ".0";
  return s;
}
static long take(std::map<int, std::deque<long> > &q, std::map<int, long> &last, int pin) {
  std::deque<long> &d = q[pin];
  if (!d.empty()) { last[pin] = d.front(); d.pop_front(); }
  return last.count(pin) ? last[pin] : 0;
}
static void load_tape(const char *path) {
  FILE *f = fopen(path, "r");
  if (!f) { fprintf(stderr, "mock: cannot open tape %s\n", path); exit(4); }
  char *line = NULL; size_t cap = 0; ssize_t n;
  while ((n = getline(&line, &cap, f)) > 0) {
    if (line[n - 1] == '\n') line[--n] = 0;
    if (line[0] == 'S' && line[1] == ' ') { q_s.push_back(std::string(line + 2)); continue; }
    if (line[0] == 'S' && line[1] == 0) { q_s.push_back(std::string()); continue; }
    char kind = line[0]; char *p = line + 1; char *end;
    if (kind == 'T') { now_us = strtoull(p, &end, 10); continue; }
    if (kind == 'B') { event_budget = strtol(p, &end, 10); continue; }
    if (kind == 'J') { for (;;) { long v = strtol(p, &end, 10); if (end == p) break; q_j.push_back(v); p = end; } continue; }
    long pin = strtol(p, &end, 10); p = end;
    std::deque<long> *dst = kind == 'D' ? &q_d[(int)pin] : kind == 'A' ? &q_a[(int)pin] : kind == 'P' ? &q_p[(int)pin] : NULL;
    if (!dst) continue;
    for (;;) { long v = strtol(p, &end, 10); if (end == p) break; dst->push_back(v); p = end; }
  }
  free(line); fclose(f);
}
void serial_line(const std::string &line) {
  if (line.compare(0, 6, "@@DUMP") == 0) {
    ev("SER %s", line.c_str());
    for (ReduLcdBase *l : ReduLcdBase::all()) l->dump();
    return;
  }
  ev("SER %s", line.c_str());
}
std::string next_serial_input() {
  std::string v;
  if (!q_s.empty()) { v = q_s.front(); q_s.pop_front(); }
  ev("SREAD %s", v.c_str());
  return v;
}
}  // namespace redu_mock
using namespace redu_mock;

HardwareSerial Serial;
TwoWire Wire;
void HardwareSerial::begin(unsigned long baud) { ev("SERIAL_BEGIN %lu", baud); }
void HardwareSerial::out(const std::string &text, bool nl) {
  pending += text;
  if (nl) { std::string l = pending; pending.clear(); for (auto &c : l) if (c == '\n') c = '\x1f'; serial_line(l); }
}
String HardwareSerial::readStringUntil(char) { String r; r.s = next_serial_input(); return r; }
int HardwareSerial::available() { return q_s.empty() ? 0 : 1; }

void pinMode(int pin, int mode) { ev("PINMODE %d %d", pin, mode); }
void digitalWrite(int pin, int value) { latch_d[pin] = value ? 1 : 0; ev("DW %d %d", pin, value ? 1 : 0); }
int digitalRead(int pin) {
  if (latch_d.count(pin)) { int v = latch_d[pin]; ev("DR %d %d latch", pin, v); return v; }
  int v = take(q_d, last_d, pin) ? 1 : 0; ev("DR %d %d", pin, v); return v;
}
void analogWrite(int pin, int value) { ev("AW %d %d", pin, value); }
int analogRead(int pin) { int v = (int)take(q_a, last_a, pin); ev("AR %d %d", pin, v); return v; }
void delay(unsigned long ms) { ev("DELAY %lu", ms); now_us += (unsigned long long)ms * 1000ULL; }
void delayMicroseconds(unsigned int us) { ev("DELAYUS %u", us); now_us += us; }
unsigned long millis() { return (unsigned long)((now_us / 1000ULL) & 0xffffffffULL); }
unsigned long micros() { return (unsigned long)(now_us & 0xffffffffULL); }
unsigned long pulseIn(int pin, int state, unsigned long timeout) {
  long v = take(q_p, last_p, pin);
  if (v < 0) v = 0;
  if ((unsigned long)v >= timeout) v = 0;
  ev("PULSEIN %d %d %ld", pin, state, v);
  now_us += v > 0 ? (unsigned long long)v : (unsigned long long)timeout;
  return (unsigned long)v;
}
void tone(int pin, unsigned int f, unsigned long d) { ev("TONE %d %u %lu", pin, f, d); }
void noTone(int pin) { ev("NOTONE %d", pin); }
long map(long x, long a, long b, long c, long d) { return (x - a) * (d - c) / (b - a) + c; }
long random(long howbig) { (void)howbig; return 0; }
long random(long a, long b) { (void)b; return a; }

static void on_cpu(int) { const char m[] = "0 FW_HANG cpu\n"; if (write(1, m, sizeof m - 1)) {} _exit(3); }
static void heap_sample(const char *where) {
#ifdef REDU_ASAN
  ev("HEAP %s %zu", where, __sanitizer_get_current_allocated_bytes());
#else
  (void)where;
#endif
}
int main(int argc, char **argv) {
  int n = argc > 1 ? atoi(argv[1]) : 2;
  if (argc > 2) load_tape(argv[2]);
  struct rlimit rl; rl.rlim_cur = 4; rl.rlim_max = 6; setrlimit(RLIMIT_CPU, &rl);
  signal(SIGXCPU, on_cpu);
  setvbuf(stdout, NULL, _IOFBF, 1 << 16);
  heap_sample("start");
  ev("== setup");
  setup();
  heap_sample("setup");
  for (int i = 0; i < n; ++i) {
    if (!q_j.empty()) { now_us += (unsigned long long)q_j.front() * 1000ULL; q_j.pop_front(); }
    ev("== loop %d", i);
    loop();
    char w[32]; snprintf(w, sizeof w, "loop%d", i); heap_sample(w);
  }
  ev("== end");
  fflush(stdout);
  return 0;
}
