#ifndef REDU_MOCK_WIRE_H
#define REDU_MOCK_WIRE_H
#include <Arduino.h>
class TwoWire { public: void begin() {} };
extern TwoWire Wire;
#endif
