#ifndef REDU_MOCK_SERVO_H
#define REDU_MOCK_SERVO_H
#include <Arduino.h>
class Servo {
 public:
  int pin = -1; bool attached_ = false;
  Servo() { redu_mock::ev("LIBOBJ Servo"); }
  int attach(int p) { pin = p; attached_ = true; redu_mock::ev("SERVO_ATTACH %d 544 2400", p); return 0; }
  int attach(int p, int mn, int mx) { pin = p; attached_ = true; redu_mock::ev("SERVO_ATTACH %d %d %d", p, mn, mx); return 0; }
  void detach() { attached_ = false; redu_mock::ev("SERVO_DETACH %d", pin); }
  void write(int a) { redu_mock::ev("SERVO_WRITE %d %d att=%d", pin, a, attached_ ? 1 : 0); }
  void writeMicroseconds(int us) { redu_mock::ev("SERVO_US %d %d att=%d", pin, us, attached_ ? 1 : 0); }
  bool attached() { return attached_; }
};
#endif
