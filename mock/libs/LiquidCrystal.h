#ifndef REDU_MOCK_LCD_H
#define REDU_MOCK_LCD_H
#include <Arduino.h>
#include <redu_lcd_base.h>
class LiquidCrystal : public ReduLcdBase {
 public:
  LiquidCrystal(int rs, int en, int d4, int d5, int d6, int d7) { redu_mock::ev("LIBOBJ LiquidCrystal %d rs=%d en=%d d=%d,%d,%d,%d", id, rs, en, d4, d5, d6, d7); }
  LiquidCrystal(int rs, int rw, int en, int d4, int d5, int d6, int d7) { redu_mock::ev("LIBOBJ LiquidCrystal %d rs=%d rw=%d en=%d d=%d,%d,%d,%d", id, rs, rw, en, d4, d5, d6, d7); }
  void begin(int c, int r) { reset(c, r); redu_mock::ev("LCD_BEGIN %d %d %d", id, c, r); }
};
#endif
