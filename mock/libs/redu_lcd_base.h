#ifndef REDU_MOCK_LCD_BASE_H
#define REDU_MOCK_LCD_BASE_H
#include <Arduino.h>
// HD44780 model: a cols x rows visible cell matrix; writes outside it are flagged (LCD_OOB).
class ReduLcdBase : public Print {
 public:
  int id; int cols = 16, rows = 2, cc = 0, cr = 0; bool begun = false; std::vector<std::string> cells;
  static std::vector<ReduLcdBase *> &all() { static std::vector<ReduLcdBase *> v; return v; }
  ReduLcdBase() { id = (int)all().size(); all().push_back(this); }
  void reset(int c, int r) { cols = c; rows = r; cells.assign(r > 0 ? r : 0, std::string(c > 0 ? c : 0, ' ')); cc = cr = 0; begun = true; }
  void clear() { if (!begun) redu_mock::ev("LCD_USE_BEFORE_BEGIN %d clear", id); for (auto &row : cells) row.assign(cols > 0 ? cols : 0, ' '); cc = cr = 0; redu_mock::ev("LCD_CLEAR %d", id); }
  void home() { cc = cr = 0; }
  void setCursor(int c, int r) { cc = c; cr = r; redu_mock::ev("LCD_CURSOR %d %d %d", id, c, r); }
  void put(char ch) {
    if (!begun) { redu_mock::ev("LCD_USE_BEFORE_BEGIN %d print", id); return; }
    if (cr < 0 || cr >= rows || cc < 0 || cc >= cols) redu_mock::ev("LCD_OOB %d col=%d row=%d ch=%d", id, cc, cr, (int)(unsigned char)ch);
    else { cells[cr][cc] = ch; redu_mock::ev("LCD_PUT %d %d %d %d", id, cc, cr, (int)(unsigned char)ch); }
    ++cc;
  }
  void out(const std::string &t, bool) override { for (char ch : t) put(ch); }
  size_t write(uint8_t ch) { put((char)ch); return 1; }
  void createChar(uint8_t slot, uint8_t *r) { redu_mock::ev("LCD_GLYPH %d %d %d %d %d %d %d %d %d %d", id, slot, r[0], r[1], r[2], r[3], r[4], r[5], r[6], r[7]); }
  void display() { redu_mock::ev("LCD_DISPLAY %d 1", id); }
  void noDisplay() { redu_mock::ev("LCD_DISPLAY %d 0", id); }
  void dump() {
    for (int r = 0; r < rows; ++r) {
      std::string o; char buf[8];
      for (unsigned char ch : cells[r]) { snprintf(buf, sizeof buf, "%02x", ch); o += buf; }
      redu_mock::ev("LCD_ROW %d %d %s", id, r, o.c_str());
    }
  }
};
#endif
