#ifndef REDU_MOCK_LCDI2C_H
#define REDU_MOCK_LCDI2C_H
#include <Arduino.h>
#include <redu_lcd_base.h>
class LiquidCrystal_I2C : public ReduLcdBase {
 public:
  int c_, r_;
  LiquidCrystal_I2C(int addr, int c, int r) : c_(c), r_(r) { redu_mock::ev("LIBOBJ LiquidCrystal_I2C %d addr=%d", id, addr); }
  void init() { reset(c_, r_); redu_mock::ev("LCD_INIT %d %d %d", id, c_, r_); }
  void begin() { init(); }
  void backlight() { redu_mock::ev("LCD_BL %d 1", id); }
  void noBacklight() { redu_mock::ev("LCD_BL %d 0", id); }
};
#endif
