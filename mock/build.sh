#!/bin/sh
# Build the mock runtime objects and the precompiled Arduino.h into /verif/.work/mockbuild (git-ignored).
HERE="$(cd "$(dirname "$0")" && pwd)"
OUT="$HERE/../.work/mockbuild"
mkdir -p "$OUT/pch"
FLAGS="-std=gnu++11 -fpermissive -fno-exceptions -fno-threadsafe-statics -w -O0 -I$HERE -I$HERE/libs"
STAMP="$OUT/stamp"
NEW="$(cat "$HERE"/Arduino.h "$HERE"/mock_runtime.cpp "$HERE"/libs/*.h "$HERE"/build.sh | sha256sum)"
if [ -f "$STAMP" ] && [ "$(cat "$STAMP")" = "$NEW" ] && [ -f "$OUT/runtime.o" ] && [ -f "$OUT/runtime_asan.o" ]; then exit 0; fi
g++ $FLAGS -c "$HERE/mock_runtime.cpp" -o "$OUT/runtime.o" || exit 1
cp "$HERE/Arduino.h" "$OUT/pch/Arduino.h"
g++ $FLAGS -x c++-header "$HERE/Arduino.h" -o "$OUT/pch/Arduino.h.gch" || exit 1
clang++ $FLAGS -DREDU_ASAN -fsanitize=address,undefined -fno-sanitize-recover=undefined -fno-omit-frame-pointer -g -c "$HERE/mock_runtime.cpp" -o "$OUT/runtime_asan.o" || exit 1
echo "$NEW" > "$STAMP"
