#!/bin/sh
# usage: tools/seed_diff.sh <seeded-name> <script.py>  - print the emitted loop() and the differential verdict for one script under one stored change
name="$1"; f="$2"
wt=/tmp/sd-$name-$$
git -C /repo worktree add -q --detach "$wt" HEAD || exit 2
( cd "$wt" && git apply --whitespace=nowarn /verif/seeded/$name/patch.diff ) || { git -C /repo worktree remove --force "$wt"; exit 2; }
( cd /verif && VERIF_REPO="$wt" /venv/bin/python - "$f" <<'P'
import sys
sys.path.insert(0, '/verif')
from vlib import runner
runner.use_repo()
from vlib import fwbuild as fb, diff
src = open(sys.argv[1]).read()
try:
    cpp = fb.transpile(src)
    print(cpp[cpp.index('void setup'):] if 'void setup' in cpp else cpp)
except Exception as e:
    print('transpile:', repr(e))
try:
    o = diff.evaluate(src, 3, {}); print('differential:', o.status, getattr(o, 'bucket', ''), str(getattr(o, 'detail', ''))[:300])
except Exception as e:
    print('diff error', repr(e))
P
)
git -C /repo worktree remove --force "$wt"; rm -rf "$wt"
