#!/bin/sh
# usage: tools/run_thorough.sh [ids...]  - thorough tier of each check, sequentially; evidence into evidence_thorough/, one summary line each
cd "$(dirname "$0")/.." || exit 2
mkdir -p evidence_thorough
for c in ${*:-C13 C12 C20 C19 C08 C18 C15 C14 C16 C17 C10 C04 C05 C09 C02 C03 C06 C07 C11 C01}; do
  t0=$(date +%s)
  out=$(VERIF_EVIDENCE_DIR=/verif/evidence_thorough ./run $c --tier thorough 2>&1); rc=$?
  echo "$c rc=$rc $(( $(date +%s) - t0 ))s $(echo "$out" | grep '^property=' | tail -1)"
  [ $rc -ne 0 ] && echo "$out" | grep -v "^KNOWN" | grep -A3 "bucket=\|HARNESS\|Traceback" | head -40
done
