#!/bin/sh
# usage: tools/seed_check.sh <seeded-name> <PROP> [tier]  - run one check against one stored seeded change (scratch worktree)
name="$1"; prop="$2"; tier="${3:-quick}"
wt=/tmp/sc-$name-$$
git -C /repo worktree add -q --detach "$wt" HEAD || exit 2
( cd "$wt" && git apply --whitespace=nowarn /verif/seeded/$name/patch.diff ) || { git -C /repo worktree remove --force "$wt"; echo "patch does not apply"; exit 2; }
( cd /verif && VERIF_REPO="$wt" VERIF_EVIDENCE_DIR="$wt/.ev" ./run "$prop" --tier "$tier" 2>&1 | grep -v KNOWN | cut -c1-220 | tail -8 )
git -C /repo worktree remove --force "$wt"; rm -rf "$wt"
