#!/usr/bin/env python3
"""Markdown table of the independently written breaking changes under seeded/ (for DESIGN.md 7.6)."""
import json, os
VERIF = os.path.dirname(os.path.dirname(os.path.abspath(__file__)))
sd = os.path.join(VERIF, "seeded")
print("| change | what it breaks (author's summary) | at intake | now | bucket(s) |")
print("|---|---|---|---|---|")
for name in sorted(os.listdir(sd)):
    m = json.load(open(os.path.join(sd, name, "meta.json")))
    intake = ", ".join(f"{p}: {'caught' if v.get('detected') else 'missed'}" for p, v in m.get("checks_run", {}).items())
    now = ", ".join(f"{p}: {'caught' if v.get('detected') else 'MISSED'}" for p, v in m.get("recheck", {}).get("results", {}).items())
    b = "; ".join(dict.fromkeys(x.replace("bucket=", "") for v in m.get("recheck", {}).get("results", {}).values() for x in v.get("buckets", [])[:2]))
    s = " ".join(str(m.get("summary", "")).split())
    if len(s) > 150:
        s = s[:147] + "..."
    print(f"| {name} | {s.replace('|', '/')} | {intake} | {now} | `{b[:110]}` |")
