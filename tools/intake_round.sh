#!/bin/sh
# usage: tools/intake_round.sh <suffix> <worktree-prefix>   e.g. d /tmp/ww-   : intake every finished, not yet stored change of a round
suf="$1"; pre="$2"
for i in 01 02 03 04 05 06 07 08 09 10 11 12 13 14 15 16 17 18 19 20; do
  id=C$i
  [ -f "$pre$id/meta.json" ] && [ -f "$pre$id/patch.diff" ] || continue
  [ -d "/verif/seeded/$id-$suf" ] && continue
  /verif/tools/seed_intake.py $id $id-$suf --src $pre$id 2>&1 | grep -v "^KNOWN" | tail -2 | cut -c1-230
  git -C /repo worktree remove --force $pre$id
done
