#!/bin/sh
# usage: tools/run_all.sh [tier] [seeds...]   - runs every registered check, prints one line each
cd "$(dirname "$0")/.." || exit 2
TIER="${1:-quick}"; shift
SEEDS="${*:-1}"
for s in $SEEDS; do
  for c in C01 C02 C03 C04 C05 C06 C07 C08 C09 C10 C11 C12 C13 C14 C15 C16 C17 C18 C19 C20; do
    out=$(VERIF_SEED=$s ./run $c --tier "$TIER" 2>&1); rc=$?
    echo "seed=$s $c rc=$rc $(echo "$out" | grep '^property=' | tail -1)"
    [ $rc -ne 0 ] && echo "$out" | grep -A3 "bucket=" | head -24
  done
done
