#!/usr/bin/env python3
"""Regenerate MANIFEST.json from the table below (kept in one place so it is always valid)."""
import json
import os

HERE = os.path.dirname(os.path.dirname(os.path.abspath(__file__)))

# id -> (level, technique, level text, level note, design ref)
CHECKS = {
    "C13": ("exploration",
            "exhaustive enumeration of (registry+near-miss)^2 against a set-membership oracle; Hypothesis round-trip of write_project through configparser",
            "validate_platform_board is compared with the membership oracle on every pair of ~3900 names (all registered boards, both platforms, generated near-misses) - exhaustive over that finite domain; write_project is exercised on generated ports/library lists/sources/directory states and read back with a standard INI parser and byte comparison, including a directory snapshot that shows nothing outside the project directory changed.",
            "Trusts Python's configparser as 'a standard INI parser'; ports/libraries restricted to single-line values without surrounding whitespace.",
            "DESIGN.md 3/C13"),
    "C19": ("exploration",
            "Hypothesis-generated operation histories interpreted against the real host classes; invariants, atomicity snapshots and sleep accounting checked after every step",
            "Every public method of Led/RGBLed/Servo/DCMotor is an operation with in-range, boundary and out-of-range arguments; the invariants listed in the property are evaluated after every step of every history, vars(obj) is compared before/after each failing call, and the recorder installed through the package-level sleep indirection gives exact sleep accounting and the intermediate states of fades/ramps.",
            "NaN excluded; float correspondences compared to 1e-9 relative; fade step restricted to ints or floats >= 0.25.",
            "DESIGN.md 3/C19"),
    "C20": ("exploration",
            "Hypothesis op lists against a dict reference model (Core), exact rational arithmetic with forward-error bound (map), call recorders (sleep, serial backend), provider sequences (sensors)",
            "The Core pin simulation is driven by generated interleavings over int/str/analogue pin names and compared with a dictionary model after every step (read-your-writes on every touched pin = non-interference); Utils.map is compared with exact Fractions; sleep, sensors and SerialMonitor are compared with the behaviour the statement spells out using recorders and fake back ends.",
            "pyserial replaced by a fake backend; analog_write arguments finite; first-sample-pressed button edge accepted either way.",
            "DESIGN.md 3/C20"),
    "C12": ("fault_enumeration",
            "exhaustive enumeration of configuration x single-fault points and of every cross-platform (platform, board) pair, plus Hypothesis-drawn double faults, against a reference model of target() written from the statement, under a recording harness",
            "All combinations of script x (platform, board) class (incl. board ids that are not identifiers) x upload x PlatformIO state x fault point x tool exit status (1, 2, 127, 255, -2, -9, -15, cannot start) are executed against the real target() with subprocess/tempfile/__main__/pathlib replaced by recording fakes that honour check= like subprocess; the reference model decides the expected exception, the recorded tool invocations (order, cwd), the written files (main.cpp bytes, platformio.ini read back with configparser) and the absence of effects.",
            "pio itself is never executed; file-system access is assumed to go through pathlib/tempfile (faults that are never reached are counted, not judged).",
            "DESIGN.md 3/C12"),
    "C08": ("exploration",
            "exhaustive enumeration of call shapes from inspect.signature; oracle = Python's own binder (bind + apply_defaults) against IR fields, plus byte-identical C++ among accepted shapes with equal bound arguments",
            "Every positional/keyword split, omitted-default subset and keyword order of every constructor, method and Core helper is generated with distinct sentinel values (shapes the host class itself rejects are dropped by really calling it); each accepted shape's IR must carry exactly the values Python binds, so swaps, drops and wrong defaults are visible. Finite domain, enumerated completely for <=4 keywords, 24 orders sampled beyond.",
            "Parameter->IR-field table (identity except renamed fields) is harness knowledge; host-only parameters are not compared.",
            "DESIGN.md 3/C08"),
    "C01": ("translation_validation",
            "differential testing: Hypothesis-generated scripts from a typed grammar, emitted C++ compiled and executed against a mock Arduino core vs the same text executed by CPython on instrumented host modules; trace comparison oracle; structural ddmin shrinker",
            "Each generated script is translated, compiled for the host against a mock Arduino core that turns every serial line, delay and pin command into a trace event, run for N loop() passes with an input tape, and compared event-for-event with CPython's execution of the same text; rejected scripts are counted, accepted scripts that do not compile or diverge are violations. Classes covered by open findings are excluded by construction (feature flags) and by a dynamic membership test on the CPython run.",
            "Mock core + host g++ stand in for avr-g++/Arduino core (32-bit int, %.9g floats); float cases restricted to float32-exact intermediates.",
            "DESIGN.md 3/C01"),
    "C02": ("translation_validation",
            "differential testing of generated type-flow scenarios (joins, hoisting, returns, parameters, lists, String promotion) against CPython, plus two static rules: declared type vs observed type, and helper-local names (from Python's symtable) declared inside the helper's C++ body",
            "Scripts are composed from type-flow scenarios with generated values and tape-controlled branches; every value is printed after every assignment and compared with CPython's run, and the C++ declaration of each user name must be able to hold every Python type the reference run observed in it.",
            "Same trusted base as C01; scenario classes of open findings are off by construction and covered by their witnesses.",
            "DESIGN.md 3/C02"),
    "C03": ("translation_validation",
            "metamorphic pairs (literal in a foldable position vs the same value routed through variables/helpers) plus differential testing against CPython, on generated folding scenarios; fold shards compare site(E) with site(value of E) byte-for-byte for thousands of recursive constant trees",
            "Scenarios place foldable operands (delays, pins, blink/fade/brightness arguments, range bounds, len(), flash patterns, glyph bitmaps, sensor model names) as folded literal arithmetic and as run-time variables assigned in branches/loops/helpers, including operands whose run-time value differs from the value they had when the line was parsed; both renderings must agree with CPython and with each other.",
            "Same trusted base as C01; open staleness classes (flash_pattern after a conditional re-assignment, device pin by re-assigned name) are excluded and witnessed.",
            "DESIGN.md 3/C03"),
    "C07": ("exploration",
            "metamorphic testing (meaning-preserving re-layout validated by ast.dump equality, outcome must be byte-identical), hook-based line accounting over generated programs seeded with every statement kind, and differential testing of generated control-flow skeletons (marker or empty block per arm) against CPython",
            "Layout: generated programs are re-rendered with random indent units, blank lines, comment lines at any column, trailing comments (also on block headers), trailing whitespace and compact/spacey token spacing; the emitted C++ must not change. Accounting: with the REDUINO_VERIF hook every line the parser consumes without a node is classified; anything outside the fixed no-meaning set is a violation, bucketed by call site + statement kind.",
            "The silent `unknown -> ignore` path is a recorded finding identified by call site + statement kind (23 kinds listed); any other dropped kind is reported. Line continuations / triple-quoted strings are not generated.",
            "DESIGN.md 3/C07"),
    "C06": ("exploration",
            "grammar-based generation (widest profile, all devices/methods, hostile printable strings; plus the type-flow scenario scripts of C02) with a validity-predicate oracle: one setup()/loop(), host g++ acceptance against the mock core, link for a sample",
            "Every accepted generated script must produce a sketch with exactly one setup() and loop() that g++ (gnu++11, -fno-exceptions, -fpermissive) accepts against the mock Arduino core and mock Servo/LiquidCrystal headers; undeclared identifiers, inconsistent types, bad escaping and missing headers are compile errors there too.",
            "Mock core + host g++ stand in for the AVR toolchain and real libraries; compile-level findings already recorded are excluded by construction.",
            "DESIGN.md 3/C06"),
    "C14": ("exploration",
            "generated device multisets with decoys; oracle = equality of five independently derived library sets (generator knowledge, _collect_required_libraries, lib_deps read back from the written platformio.ini, #include lines, global object classes) and link against mock headers",
            "For every generated combination of 0-3 servos (prologue or top of main loop), 0-2 parallel and 0-2 I2C LCDs, other devices and decoy identifiers/strings/comments, the requested libraries, the included headers and the instantiated library classes must all equal the set the generator declared, with nothing listed twice and Wire.h accompanying the I2C header.",
            "Library versions and registry names cannot be checked offline.",
            "DESIGN.md 3/C14"),
    "C05": ("exploration",
            "generated phase scripts (devices declared before / at the top of the main loop, numbered markers, persisting counters, buttons, LCD animations, main-loop break) run on the mock core; temporal monitors over the firmware trace derived from the script",
            "The firmware trace of each generated script is checked by monitors: prologue markers exactly once in order before pass 0, body markers once per pass in order with counters continuing, every device-owned pin configured (right mode, in setup, never changed) before first use, servo attached / LCD begun / Serial begun / motor safely stopped before use, exactly one button sample per pass and all injected housekeeping before the first user statement without delay, and main-loop `break` rejected.",
            "Mock core as observation device; general persistence of values across passes is additionally covered by C01's differential.",
            "DESIGN.md 3/C05"),
    "C09": ("exploration",
            "generated list/str programs (IndexError-free by construction and confirmed by the CPython run) built with clang AddressSanitizer+UBSan against the mock core; oracles: no sanitizer report, and heap-bytes equality across passes whenever the Python program's live data is constant",
            "Every generated program is compiled with -fsanitize=address,undefined and run for 3 or 6 loop() passes; any sanitizer report is a violation, and the allocator's live byte count after consecutive passes (ASan allocator interface, sampled by the mock main) must be equal whenever the reference run's live data is equal.",
            "Host ASan heap and the mock String stand in for the AVR heap; aliasing, parameter mutation and in-loop allocation are recorded findings excluded by construction.",
            "DESIGN.md 3/C09"),
    "C10": ("exploration",
            "generated 'promotion' scripts transpiled under 12 PYTHONHASHSEED values, one forked child per script (digest agreement) and in generated in-process histories (agreement with the fresh-process bytes, parse-twice IR equality, deep snapshot of module-level state)",
            "The harness owns the hash seed: each pool of generated scripts (names hoisted out of if/elif/else/while/for/try in random order, several buttons, animated LCDs, ultrasonic sensors, helpers with several signatures) is transpiled by fresh interpreters under 12 hash seeds and inside generated histories of 2-12 transpilations; all outputs for a script must be byte-identical and module-level containers unchanged.",
            "Other CPython versions/platforms are represented only by hash-seed variation.",
            "DESIGN.md 3/C10"),
    "C11": ("exploration",
            "fuzzing in supervised child processes: hostile-expression templates with canaries (also inside string literals and import lines), amplification histories, deep nesting under a lowered recursion limit, token/line-mutated valid Python, random text/bytes and a coverage-guided atheris campaign; oracle = audit hook + canaries + exception-type rule + per-case CPU budget + module-state fingerprint",
            "Every input is transpiled inside a forked child with sys.addaudithook armed around parse/emit (any exec/import/open/os/subprocess/socket event is a violation), canary files that only exist if user expressions were evaluated, the rule 'ValueError, or SyntaxError only when ast.parse rejects the text', a soft RLIMIT_CPU advanced by 10 s per case (the kernel ends a worker stuck in big-int arithmetic) and a fingerprint of module-level containers.",
            "compile audit events from ast.parse are not judged; atheris part is skipped (counted) if the wheel cannot be installed.",
            "DESIGN.md 3/C11"),
    "C04": ("translation_validation",
            "generated operation histories over Led/RGBLed/Servo/DCMotor (literal and tape-derived run-time arguments, getter reads) compiled once and run with several tapes; differential against the instrumented host classes; clamp-range monitor for out-of-range histories",
            "Each history is compiled for the mock core and its per-pin signal (PWM duty, HIGH/LOW, servo angle/pulse, motor direction and duty +-1), delays (< 1 ms apart) and every getter value are compared with what the real host classes compute for the same calls and the same tape; a second family of histories with out-of-range arguments checks that no analogWrite/servo command leaves the documented limits (built with ASan/UBSan).",
            "Mock core observes commands, not electrical behaviour; RGB fade ties and sub-PWM-resolution motor speeds are recorded findings excluded by construction.",
            "DESIGN.md 3/C04"),
    "C15": ("exploration",
            "generated input sketches compiled once and run against many generated tapes (button levels, ADC values, echo durations with timeout runs, clock jitter, starts shortly before the 32-bit millis() wrap on a build with 32-bit unsigned long); reference models written from the statement evaluated on the firmware trace; host Button class as a second oracle for click counts",
            "For every (sketch, tape) pair the trace must show one digitalRead per button per pass plus the initial sample, on_click markers exactly at released->pressed transitions of the sampled signal, every is_pressed() equal to the pass's sample, click counts equal to the host Button's, one analogRead per pot.read() with that value, and for ultrasonic calls the distance formula, <=3 attempts, the last-good/400 fallback and >=60 ms between triggers.",
            "Virtual clock owned by the harness; millis() rollover cannot be observed on a 64-bit host; loop-declared buttons are a recorded finding.",
            "DESIGN.md 3/C15"),
    "C16": ("exploration",
            "generated buzzer call histories (literal and tape-derived arguments from negative/zero/fractional/typical/large values) run with several tapes under ASan+UBSan; protocol reference model written from the property statement evaluated between per-call markers",
            "Each history is compiled once and run with several tapes; between per-call markers the TONE/NOTONE/DELAY events of the buzzer pin and the printed getter values must satisfy the protocol model: no tone for f <= 0, silence and get_state() false after every call with a duration, exact beep counts and gaps, sweep slot count/monotonicity/end points/total delay, melody order/count/rests/durations with default tempo for tempo <= 0, bounded delays, and get_frequency/get_last_frequency tracking.",
            "Score notes are copied from the emitter table (consistency only); tone() hardware limits not modelled.",
            "DESIGN.md 3/C16"),
    "C17": ("translation_validation",
            "generated LCD operation histories on generated geometries/wirings with literal and tape-fed run-time texts; after every operation the mock display's cell matrix is dumped and compared with the host LCD buffer; rule checks for progress bars, backlight level and glyph bytes",
            "The mock LiquidCrystal/LiquidCrystal_I2C keep the visible cols x rows cell matrix and flag any write outside it; after each generated operation both the firmware and the host LCD class dump the display and must agree cell for cell (rows holding a progress bar off a cell boundary may differ by one fill cell), progress fill must be monotone and saturating on both sides, the backlight pin must sit at (on ? brightness : 0) and createChar bytes must equal the host's glyphs.",
            "Printable ASCII texts only; in-range row/col; mock models the visible window only.",
            "DESIGN.md 3/C17"),
    "C18": ("exploration",
            "generated animation sketches run for 3*bound+6 passes under generated per-pass clock increments (harness-owned virtual clock, incl. the 32-bit millis() wrap) with trace invariants; generated animate/tick(now) histories on the host LCD with the same invariants after every call",
            "Device: no delay from animate or ticks, all display traffic before the first user statement of each pass, frames confined to their row and clearing exactly cols cells, at most one step per pass, non-looping animations silent after a linear number of frames, looping ones still stepping in the last third of the run, steps >= speed_ms apart once millis() > 0. Host: tick never raises for non-decreasing positive timestamps, rows keep their length, only animated rows change, the same termination / looping / rate rules.",
            "Liveness is bounded termination with bound 2*(len+cols)+4; animations started inside the main loop are a recorded finding.",
            "DESIGN.md 3/C18"),
}

PENDING = {}


def main():
    props = [json.loads(l) for l in open(os.path.join(HERE, "properties.jsonl"))]
    checks = []
    na = []
    for p in props:
        pid = p["id"]
        if pid in CHECKS:
            level, tech, text, note, ref = CHECKS[pid]
            checks.append({
                "property_id": pid,
                "quick_cmd": f"./run {pid} --tier quick",
                "thorough_cmd": f"./run {pid} --tier thorough",
                "evidence_file": f"evidence/{pid}.json",
                "replay_cmd_template": f"./run {pid} --replay {{path}}",
                "engine": "vlib",
                "level_claimed": {"category": level, "text": text, "design_ref": ref},
                "level_note": note,
                "technique": tech,
            })
        else:
            na.append({"property_id": pid, "reason": PENDING.get(pid, "check not built yet (work in progress; see DESIGN.md 5.2 for the construction order)")})
    man = {
        "version": 1,
        "setup_cmd": "./setup.sh",
        "hooks": {
            "guard": "REDUINO_VERIF",
            "enable": "checks import /repo/src with REDUINO_VERIF=1 in the environment (set by vlib/runner.py)",
            "baseline_off_cmd": "cd /repo && env -u REDUINO_VERIF /venv/bin/python -m pytest -ra -q -p no:cacheprovider --timeout=900 --continue-on-collection-errors",
            "source_commits": HOOK_COMMITS,
            "add_only": True,
        },
        "engines": [{"name": "vlib", "path": "vlib/", "serves_properties": sorted(CHECKS),
                     "kind_free_text": "Hypothesis strategies / rule-based state machines, itertools enumeration and atheris, sharded over 16 processes by vlib/runner.py; firmware-side checks compile the emitted C++ against the mock Arduino core in mock/"}],
        "checks": checks,
        "not_applicable": na,
        "notes": "Every check: ./run <ID> --tier quick|thorough; exit 0 held, 1 VIOLATION, 2 harness error. Known findings: known_findings.json (exact witnesses only).",
    }
    with open(os.path.join(HERE, "MANIFEST.json"), "w") as f:
        json.dump(man, f, indent=1)
        f.write("\n")


HOOK_COMMITS = ["7c0d80c"]

if __name__ == "__main__":
    main()
