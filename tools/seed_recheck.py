#!/usr/bin/env python3
"""Re-run the property's check against every stored seeded change (scratch worktree of /repo HEAD + patch) and record the
outcome in meta.json under `recheck`. usage: tools/seed_recheck.py [name ...] [--tier quick]"""
import json, os, subprocess, sys, time
VERIF = os.path.dirname(os.path.dirname(os.path.abspath(__file__)))
args = [a for a in sys.argv[1:] if not a.startswith("--")]
seeds = next((a.split("=", 1)[1].split(",") for a in sys.argv[1:] if a.startswith("--seeds=")), ["1"])
tier = "thorough" if "--thorough" in sys.argv else "quick"
sd = os.path.join(VERIF, "seeded")
def sh(c): return subprocess.run(c, shell=True, text=True, capture_output=True)
for name in sorted(os.listdir(sd)):
    if args and name not in args: continue
    d = os.path.join(sd, name)
    meta = json.load(open(os.path.join(d, "meta.json")))
    wt = f"/tmp/sr-{name}"
    sh(f"git -C /repo worktree remove --force {wt}")
    sh(f"git -C /repo worktree add -q --detach {wt} HEAD")
    try:
        r = sh(f"cd {wt} && git apply --whitespace=nowarn {d}/patch.diff")
        if r.returncode:
            print(name, "PATCH DOES NOT APPLY"); continue
        out = {}
        for prop in meta.get("also_props", [meta["property"]]) if isinstance(meta.get("also_props"), list) else [meta["property"]]:
            t0 = time.time()
            per_seed = {}
            b = []
            for seed_v in seeds:
                r = sh(f"cd {VERIF} && VERIF_SEED={seed_v} VERIF_REPO={wt} VERIF_EVIDENCE_DIR={wt}/.ev ./run {prop} --tier {tier}")
                per_seed[seed_v] = r.returncode == 1 and "VIOLATION" in r.stdout
                b = b or [l.strip()[7:] for l in r.stdout.splitlines() if l.strip().startswith("bucket=")]
            out[prop] = {"exit": r.returncode, "detected": all(per_seed.values()), "per_seed": per_seed, "buckets": b[:5], "tier": tier, "wall_s": round(time.time() - t0, 1)}
        meta["recheck"] = {"repo_head": sh("git -C /repo log --format=%h -1").stdout.strip(), "verif_head": sh(f"git -C {VERIF} log --format=%h -1").stdout.strip(), "results": out}
        json.dump(meta, open(os.path.join(d, "meta.json"), "w"), indent=1)
        print(name, {k: (v["detected"], v["buckets"][:2]) for k, v in out.items()})
    finally:
        sh(f"git -C /repo worktree remove --force {wt}")
