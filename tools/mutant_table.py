#!/usr/bin/env python3
"""sensitivity/RESULTS.jsonl -> sensitivity/RESULTS.md (full list) and a per-property summary on stdout (DESIGN.md 7.7)."""
import json, os, collections
V = os.path.dirname(os.path.dirname(os.path.abspath(__file__)))
rows = [json.loads(l) for l in open(os.path.join(V, "sensitivity", "RESULTS.jsonl"))]
last = {}
tests = {}
for r in rows:
    last[r["id"]] = r
    if r.get("tests") != "skipped":
        tests[r["id"]] = r.get("tests")     # a later re-run of the check alone (--skip-tests) keeps the verdict of the repository's tests
for k, r in last.items():
    if r.get("tests") == "skipped" and k in tests:
        r["tests"] = tests[k]
rows = sorted(last.values(), key=lambda r: (r["property"], r["id"]))
with open(os.path.join(V, "sensitivity", "RESULTS.md"), "w") as f:
    f.write("# Hand-written mutants: last sweep\n\n`tests` = the repository's own 123 tests on the mutant; `killed` = the property's quick check exits 1 with a VIOLATION line.\n\n")
    f.write("| mutant | property | what it changes | tests | killed | first bucket |\n|---|---|---|---|---|---|\n")
    for r in rows:
        b = (r.get("buckets") or [""])[0].replace("bucket=", "")
        f.write(f"| {r['id']} | {r['property']} | {r.get('desc','').replace('|','/')} | {r.get('tests')} | {'yes' if r.get('killed') else 'NO'} | `{b[:70]}` |\n")
by = collections.defaultdict(list)
for r in rows:
    by[r["property"]].append(r)
print("| property | mutants | killed by the quick check | already caught by the repository's tests |")
print("|---|---|---|---|")
for p in sorted(by):
    rs = by[p]
    print(f"| {p} | {len(rs)} | {sum(1 for r in rs if r.get('killed'))} | {sum(1 for r in rs if r.get('tests') == 'FAIL')} |")
print(f"| all | {len(rows)} | {sum(1 for r in rows if r.get('killed'))} | {sum(1 for r in rows if r.get('tests') == 'FAIL')} |")
