#!/usr/bin/env python3
"""Append or update an entry of known_findings.json (developer tool; never used at check run time)."""
import json, sys, os
HERE = os.path.dirname(os.path.dirname(os.path.abspath(__file__)))
P = os.path.join(HERE, "known_findings.json")
def add(entry):
    d = json.load(open(P))
    d["findings"] = [f for f in d["findings"] if f["id"] != entry["id"]] + [entry]
    json.dump(d, open(P, "w"), indent=1)
if __name__ == "__main__":
    add(json.load(sys.stdin))
