#!/usr/bin/env python3
"""Intake of an independently written breaking change (sub-agent, scratch worktree /tmp/wt-<ID>):
verify it ourselves in a fresh scratch worktree of /repo (demo passes without / fails with the change, repository tests
pass with it), run the property's check against it, store everything under /verif/seeded/<name>/ and clean up.

usage: tools/seed_intake.py <ID> <name> [--check-props C01,C07] [--tier quick]
"""
import argparse, json, os, shutil, subprocess, sys, time

VERIF = os.path.dirname(os.path.dirname(os.path.abspath(__file__)))

def sh(cmd, **kw):
    return subprocess.run(cmd, shell=True, text=True, capture_output=True, **kw)

ap = argparse.ArgumentParser()
ap.add_argument("id"); ap.add_argument("name"); ap.add_argument("--check-props"); ap.add_argument("--tier", default="quick"); ap.add_argument("--src")
a = ap.parse_args()
src = a.src or f"/tmp/wt-{a.id}"
dst = os.path.join(VERIF, "seeded", a.name)
os.makedirs(dst, exist_ok=True)
for f in os.listdir(src):
    if f in ("patch.diff", "meta.json") or f.startswith("demo_"):
        shutil.copy(os.path.join(src, f), os.path.join(dst, f))
meta = json.load(open(os.path.join(dst, "meta.json")))
demo = next(f for f in os.listdir(dst) if f.startswith("demo_"))
wt = f"/tmp/sv-{a.name}"
sh(f"git -C /repo worktree remove --force {wt}")
r = sh(f"git -C /repo worktree add -q --detach {wt} HEAD")
assert r.returncode == 0, r.stderr
try:
    shutil.copy(os.path.join(dst, demo), os.path.join(wt, demo))
    base = sh(f"cd {wt} && /venv/bin/python {demo}")
    ap_ = sh(f"cd {wt} && git apply --whitespace=nowarn {dst}/patch.diff || git apply --3way --whitespace=nowarn {dst}/patch.diff")
    if ap_.returncode != 0:
        print("PATCH DOES NOT APPLY to current HEAD:", ap_.stderr[:400]); sys.exit(1)
    tests = sh(f"cd {wt} && /venv/bin/python -m pytest -q -p no:cacheprovider")
    withc = sh(f"cd {wt} && /venv/bin/python {demo}")
    meta["verified"] = {"demo_without_change_exit": base.returncode, "demo_with_change_exit": withc.returncode, "repo_tests_pass_with_change": tests.returncode == 0,
                        "repo_head": sh("git -C /repo log --format=%h -1").stdout.strip()}
    ok = base.returncode == 0 and withc.returncode != 0 and tests.returncode == 0
    meta["verified"]["confirmed"] = ok
    print("verify:", meta["verified"])
    results = {}
    for prop in (a.check_props or meta.get("property", a.id)).split(","):
        t0 = time.time()
        r = sh(f"cd {VERIF} && VERIF_REPO={wt} VERIF_EVIDENCE_DIR={wt}/.ev ./run {prop} --tier {a.tier}")
        buckets = [ln.strip() for ln in r.stdout.splitlines() if ln.strip().startswith("bucket=")]
        results[prop] = {"exit": r.returncode, "detected": r.returncode == 1 and "VIOLATION" in r.stdout, "buckets": buckets[:6], "wall_s": round(time.time() - t0, 1), "tier": a.tier}
        print(prop, results[prop])
        if r.returncode == 2:
            print(r.stdout[-800:], r.stderr[-1500:])
    meta["checks_run"] = results
    json.dump(meta, open(os.path.join(dst, "meta.json"), "w"), indent=1)
finally:
    sh(f"git -C /repo worktree remove --force {wt}")
    shutil.rmtree(wt, ignore_errors=True)
