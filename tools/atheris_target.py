#!/venv/bin/python
"""atheris (libFuzzer) target for C11: byte noise -> Reduino.transpile; oracle = clean outcome (see checks/c11.py)."""
import json
import os
import sys

import atheris

sys.path.insert(0, os.path.dirname(os.path.dirname(os.path.abspath(__file__))))
from vlib.runner import use_repo  # noqa: E402

use_repo()
with atheris.instrument_imports(include=["Reduino"]):
    import Reduino.transpile.parser  # noqa: F401
    import Reduino.transpile.emitter  # noqa: F401
import checks.c11 as c11  # noqa: E402

OUT = os.environ.get("C11_FINDINGS")
sys.addaudithook(c11._audit)
seen = set()


def one(data: bytes):
    text = data.decode("utf-8", "surrogateescape")
    res = c11.run_case(text, None)
    if res["status"] == "FAIL" and res["bucket"] not in seen:
        seen.add(res["bucket"])
        if OUT:
            with open(OUT, "a") as f:
                f.write(json.dumps({"bucket": res["bucket"], "text": text, "detail": res["detail"]}) + "\n")


atheris.Setup(sys.argv, one)
atheris.Fuzz()
