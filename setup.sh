#!/bin/sh
# Offline setup: make sure hypothesis (and, if available, atheris) are importable by /venv/bin/python,
# and pre-build the mock Arduino runtime. Everything comes from files already on disk.
HERE="$(cd "$(dirname "$0")" && pwd)"
cd "$HERE" || exit 1
mkdir -p .deps .work
if ! /venv/bin/python -c "import hypothesis" 2>/dev/null; then
  /venv/bin/pip install --no-index --find-links /opt/veriftools/wheels --target "$HERE/.deps" hypothesis || exit 1
fi
if ! PYTHONPATH="$HERE/.deps" /venv/bin/python -c "import atheris" 2>/dev/null; then
  /venv/bin/pip install --no-index --find-links /opt/veriftools/wheels --target "$HERE/.deps" atheris >/dev/null 2>&1 || echo "atheris not installable (C11 falls back to Hypothesis-only byte noise)"
fi
if [ -f mock/build.sh ]; then sh mock/build.sh || exit 1; fi
echo "setup ok"
