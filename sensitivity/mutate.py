#!/venv/bin/python
"""Sensitivity protocol (DESIGN 2.12): apply a mutant to a scratch copy of /repo, confirm the repository's own
tests still pass, run the property's quick check against the copy (VERIF_REPO) and require exit 1.

usage: sensitivity/mutate.py [--prop C13] [--id name] [--tier quick] [--skip-tests]
Mutants live in sensitivity/mutants.json: {id, property, file, old, new, desc} (textual replacement, `old` must be unique)
or in /verif/seeded/<id>/patch.diff (applied with git apply).
Results are appended to sensitivity/RESULTS.jsonl.
"""
import argparse
import json
import os
import shutil
import subprocess
import sys
import time

HERE = os.path.dirname(os.path.abspath(__file__))
VERIF = os.path.dirname(HERE)


def sh(cmd, **kw):
    return subprocess.run(cmd, shell=True, text=True, capture_output=True, **kw)


def main():
    ap = argparse.ArgumentParser()
    ap.add_argument("--prop")
    ap.add_argument("--id")
    ap.add_argument("--tier", default="quick")
    ap.add_argument("--skip-tests", action="store_true")
    ap.add_argument("--seeded", action="store_true", help="use /verif/seeded/*/patch.diff instead of mutants.json")
    a = ap.parse_args()
    muts = []
    if a.seeded:
        sd = os.path.join(VERIF, "seeded")
        for d in sorted(os.listdir(sd)):
            mp = os.path.join(sd, d, "meta.json")
            if os.path.exists(mp):
                meta = json.load(open(mp))
                muts.append({"id": d, "property": meta["property"], "patch": os.path.join(sd, d, "patch.diff"), "desc": meta.get("needs", "")})
    else:
        muts = json.load(open(os.path.join(HERE, "mutants.json")))
    rc_all = 0
    for m in muts:
        if a.prop and m["property"] != a.prop:
            continue
        if a.id and m["id"] != a.id:
            continue
        scratch = f"/tmp/redu-mut-{os.getpid()}"
        shutil.rmtree(scratch, ignore_errors=True)
        shutil.copytree("/repo", scratch, ignore=shutil.ignore_patterns(".git", "__pycache__", ".benchmarks"))
        try:
            if "patch" in m:
                r = sh(f"cd {scratch} && git init -q . && git apply --whitespace=nowarn {m['patch']}")
                if r.returncode:
                    print(f"{m['id']}: PATCH DOES NOT APPLY {r.stderr[:300]}")
                    rc_all = 1
                    continue
            else:
                p = os.path.join(scratch, m["file"])
                s = open(p).read()
                if s.count(m["old"]) != 1:
                    print(f"{m['id']}: old text occurs {s.count(m['old'])} times - skipped")
                    rc_all = 1
                    continue
                open(p, "w").write(s.replace(m["old"], m["new"]))
            tests = "skipped"
            if not a.skip_tests:
                r = sh(f"cd {scratch} && /venv/bin/python -m pytest -p no:cacheprovider -x")
                tests = "pass" if r.returncode == 0 else "FAIL"
            t0 = time.time()
            r = sh(f"cd {VERIF} && VERIF_REPO={scratch} VERIF_EVIDENCE_DIR={scratch}/.ev ./run {m['property']} --tier {a.tier}")
            dt = time.time() - t0
            vio = [ln for ln in r.stdout.splitlines() if ln.startswith("VIOLATION")]
            buckets = [ln.strip() for ln in r.stdout.splitlines() if ln.strip().startswith("bucket=")]
            killed = r.returncode == 1 and bool(vio)
            res = {"id": m["id"], "property": m["property"], "tests": tests, "exit": r.returncode, "killed": killed,
                   "buckets": buckets[:5], "wall_s": round(dt, 1), "desc": m.get("desc", "")}
            print(json.dumps(res))
            if r.returncode == 2:
                print(r.stdout[-1500:], r.stderr[-3000:])
            with open(os.path.join(HERE, "RESULTS.jsonl"), "a") as f:
                f.write(json.dumps(res) + "\n")
            if not killed:
                rc_all = 1
        finally:
            shutil.rmtree(scratch, ignore_errors=True)
    # the check leaves evidence for the mutated tree behind; restore by re-running on /repo is the caller's job
    return rc_all


if __name__ == "__main__":
    sys.exit(main())
