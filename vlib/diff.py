"""Differential evaluation of one script: transpile, reference run, build, firmware run, compare."""
from __future__ import annotations

import re

from vlib import fwbuild as fb
from vlib import hostexec as hx
from vlib import tracecmp as tc

# dynamic membership in classes excluded while their findings are open (decided on the CPython run only)
EXCLUDED_FLAGS = {
    "floordiv_mod_sign": "floordiv_mod_neg", "floordiv_mod_float": "floordiv_mod_neg", "int_truediv": "int_truediv",
    "pow": "pow", "boolop_nonbool_operand": "boolop_nonbool", "str_of_bool": "str_of_bool", "bool_arith": "bool_arith",
    "str_plus_nonstr": "str_plus_nonstr", "str_repeat": "str_repeat",
    "float_not_f32_exact": "float_not_f32_exact", "int_beyond_32bit": "int_overflow",
}


class Outcome:
    def __init__(self, status, detail="", bucket="", cpp=None, host=None, trace=None):
        self.status = status   # rejected | rejected-other | not-well-defined | excluded-class | ok | FAIL
        self.detail = detail
        self.bucket = bucket
        self.cpp, self.host, self.trace = cpp, host, trace


def norm_err(msg: str) -> str:
    m = re.search(r"error: (.*)", msg)
    line = m.group(1) if m else msg.splitlines()[0] if msg else "?"
    line = re.sub(r"'[^']*'|‘[^’]*’", "<id>", line)
    line = re.sub(r"\d+", "N", line)
    return line[:70]


def evaluate(src: str, n: int, tape: dict, *, off=frozenset(), asan=False, compare=True, host_opts=None) -> Outcome:
    try:
        cpp = fb.transpile(src)
    except ValueError as e:
        return Outcome("rejected", str(e))
    except RecursionError as e:
        return Outcome("rejected-other", repr(e))
    except Exception as e:  # internal error: reported by C11; for the differential checks it is "fails with an error"
        return Outcome("rejected-other", f"{type(e).__name__}: {e}")
    host = hx.run_host(src, n, tape, host_opts)
    if "error" in host:
        return Outcome("not-well-defined", host["error"], cpp=cpp)
    for fl, cls in EXCLUDED_FLAGS.items():
        if host["flags"].get(fl) and cls in off:
            return Outcome("excluded-class", cls, cpp=cpp, host=host)
    with fb.Workdir("d") as wd:
        try:
            exe = fb.build(cpp, wd, asan=asan)
        except fb.CompileError as e:
            return Outcome("FAIL", str(e), "compile-error:" + norm_err(str(e)), cpp=cpp, host=host)
        trace = fb.run(exe, n, fb.make_tape(**tape), wd)
    if trace.status != "ok":
        det = trace.stderr[-400:] if trace.status != "hang" else "firmware did not finish (CPU/event budget)"
        return Outcome("FAIL", det, f"firmware-{trace.status.split(':')[0]}", cpp=cpp, host=host, trace=trace)
    if not compare:
        return Outcome("ok", cpp=cpp, host=host, trace=trace)
    d = tc.compare(host["events"], trace)
    if d is None:
        return Outcome("ok", cpp=cpp, host=host, trace=trace)
    m = re.search(r"host (\w+)\(.*? vs firmware (\w+)\(", d)
    kind = f"{m.group(1)}/{m.group(2)}" if m else ("time" if " time:" in d else "length")
    return Outcome("FAIL", d, f"diverge:{kind}", cpp=cpp, host=host, trace=trace)
