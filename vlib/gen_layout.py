"""Meaning-preserving re-layout of a generated program (node tree) chosen by Hypothesis.

Dimensions: indent unit per block (1-8 spaces or a tab), blank lines (empty / spaces / tab), comment lines at any
column (0, block indent, deeper, shallower), trailing comments on any line including block headers, trailing
whitespace, token re-spacing (compact / spacey).  Every variant is validated with ast.dump equality by the caller.
"""
from __future__ import annotations

import io
import tokenize

from hypothesis import strategies as st

UNITS = [" ", "  ", "   ", "    ", "     ", "      ", "       ", "        ", "\t"]
COMMENT_TEXTS = ["c", "main loop", "while True:", "x = 1", "'quote", "\"dq", "else:", "", "# nested", "def f():", "target('COM3')", "a#b"]


def respace(line: str, mode: str) -> str:
    """Re-emit one logical line with different optional spacing between tokens."""
    if mode == "asis" or 'f"' in line or "f'" in line or line.lstrip().startswith("#"):
        return line  # spaces inside f-strings are content: such lines keep their spacing
    try:
        toks = list(tokenize.generate_tokens(io.StringIO(line + "\n").readline))
    except (tokenize.TokenError, IndentationError, SyntaxError):
        return line
    out = []
    prev = None
    for t in toks:
        if t.type in (tokenize.NEWLINE, tokenize.NL, tokenize.ENDMARKER, tokenize.INDENT, tokenize.DEDENT):
            continue
        if t.type == tokenize.COMMENT:
            out.append("  " + t.string)
            prev = t
            continue
        if prev is not None:
            need = (prev.type in (tokenize.NAME, tokenize.NUMBER) and t.type in (tokenize.NAME, tokenize.NUMBER, tokenize.STRING)) or \
                   (prev.type == tokenize.STRING and t.type in (tokenize.NAME, tokenize.NUMBER)) or \
                   (prev.type == tokenize.FSTRING_END if hasattr(tokenize, "FSTRING_END") else False)
            inside_f = getattr(tokenize, "FSTRING_MIDDLE", None) in (prev.type, t.type) or getattr(tokenize, "FSTRING_START", None) == prev.type or getattr(tokenize, "FSTRING_END", None) == t.type
            if inside_f:
                # keep the original gap inside f-strings (spaces there are content)
                gap = line[_off(line, prev.end):_off(line, t.start)] if prev.end[0] == t.start[0] == 1 else ""
                out.append(gap)
            elif mode == "compact":
                kw = prev.string in ("not", "and", "or", "in", "is", "if", "else", "elif", "while", "for", "def", "return", "lambda", "import", "from", "as", "global", "del", "assert", "raise", "with", "class", "yield", "await", "async", "pass", "break", "continue", "try", "except", "finally") or \
                     t.string in ("not", "and", "or", "in", "is", "if", "else", "for", "as", "import")
                if need or kw:
                    out.append(" ")
                elif prev.string in ("-", "+") and t.string in ("-", "+"):
                    out.append(" ")
            else:  # spacey: one space between all tokens except attribute dots and call / index brackets
                if t.string == "." or prev.string == ".":
                    out.append("")
                elif t.string in ("(", "[") and (prev.type == tokenize.NAME and prev.string not in KEYWORDS or prev.string in (")", "]")):
                    out.append("")
                elif prev.string in ("-", "+", "~") and _is_unary(toks, prev):
                    out.append("")
                else:
                    out.append(" ")
        out.append(t.string)
        prev = t
    return "".join(out)


KEYWORDS = {"not", "and", "or", "in", "is", "if", "else", "elif", "while", "for", "def", "return", "lambda", "import", "from", "as", "global",
            "del", "assert", "raise", "with", "class", "yield", "await", "async", "pass", "break", "continue", "try", "except", "finally", "print"} - {"print"}


def _is_unary(toks, tok):
    i = toks.index(tok)
    if i == 0:
        return True
    p = toks[i - 1]
    return p.type == tokenize.OP and p.string not in (")", "]", "}") or (p.type == tokenize.NAME and p.string in KEYWORDS)


def _off(line, pos):
    return pos[1]


class Layout:
    def __init__(self, draw, *, allow_shallow_comments=True, allow_header_comments=True, allow_respace=True):
        self.draw = draw
        self.dims = set()
        self.allow_shallow = allow_shallow_comments
        self.allow_header = allow_header_comments
        self.allow_respace = allow_respace

    def d(self, s):
        return self.draw(s)

    def comment_text(self):
        return "#" + self.d(st.sampled_from(["", " "])) + self.d(st.sampled_from(COMMENT_TEXTS))

    def filler(self, indent, depth):
        """Zero or more blank / comment lines that may precede a statement at `indent`."""
        out = []
        for _ in range(self.d(st.sampled_from([0, 0, 0, 1, 1, 2]))):
            k = self.d(st.sampled_from(["blank", "blank_ws", "comment_same", "comment_deeper", "comment_col0", "comment_shallow"]))
            if k == "blank":
                out.append(""); self.dims.add("blank")
            elif k == "blank_ws":
                out.append(self.d(st.sampled_from(["  ", "\t", "        ", " \t "]))); self.dims.add("blank_ws")
            elif k == "comment_same":
                out.append(indent + self.comment_text()); self.dims.add("comment_line")
            elif k == "comment_deeper":
                out.append(indent + self.d(st.sampled_from(["  ", "    ", "\t"])) + self.comment_text()); self.dims.add("comment_deeper")
            elif k == "comment_col0":
                if depth == 0 or self.allow_shallow:
                    out.append(self.comment_text())
                    self.dims.add("comment_col0_in_block" if depth > 0 else "comment_line")
            else:
                if depth > 0 and self.allow_shallow and len(indent) > 1:
                    out.append(indent[: self.d(st.integers(0, len(indent) - 1))] + self.comment_text())
                    self.dims.add("comment_shallower")
        return out

    def decorate(self, text, is_header):
        if self.allow_respace:
            mode = self.d(st.sampled_from(["asis", "asis", "compact", "spacey"]))
            if mode != "asis":
                new = respace(text, mode)
                if new != text:
                    self.dims.add("respace_" + mode)
                text = new
        if self.d(st.integers(0, 5)) == 0 and (not is_header or self.allow_header):
            text = text + self.d(st.sampled_from(["  ", " ", "\t", ""])) + self.comment_text()
            self.dims.add("trailing_comment_header" if is_header else "trailing_comment")
        if self.d(st.integers(0, 6)) == 0:
            text = text + self.d(st.sampled_from([" ", "   ", "\t"]))
            self.dims.add("trailing_ws")
        return text

    def render(self, nodes, indent="", depth=0):
        lines = []
        for n in nodes:
            lines.extend(self.filler(indent, depth))
            if n[0] == "s":
                lines.append(indent + self.decorate(n[1], False))
            else:
                lines.append(indent + self.decorate(n[1], True))
                unit = self.d(st.sampled_from(UNITS))
                if unit != "    ":
                    self.dims.add("indent_" + ("tab" if unit == "\t" else str(len(unit))))
                body = n[2] if n[2] else [("s", "pass")]
                lines.extend(self.render(body, indent + unit, depth + 1))
        if depth == 0:
            lines.extend(self.filler("", 0))
        return lines


def relayout(draw, nodes, **kw):
    lay = Layout(draw, **kw)
    lines = lay.render(nodes)
    return "\n".join(lines) + "\n", sorted(lay.dims)
