"""Shared runner: CLI, seeds, sharding, known findings, evidence, exit codes.

A check module (checks/cNN.py) exposes

    ID            property id ("C13")
    LEVEL         evidence level category
    RULE          text: how cases are generated and what makes one non-trivial
    ASSUMPTIONS   list of str
    def plan(tier) -> list of (shard_name, kwargs)       # work units, run in parallel
    def run_shard(name, seed, tier, **kwargs) -> Result   # executes one unit
    def replay(case) -> list[Failure-dict]                # re-executes one saved case, no Hypothesis

Result (see class below) carries counters, hashes of non-trivial cases, samples and failures.
A failure is {"bucket": str, "case": json-able, "expected": str, "observed": str}.

Exit codes: 0 held (KNOWN-FINDING lines allowed), 1 violation (VIOLATION line), 2 harness error.
"""
from __future__ import annotations

import argparse
import hashlib
import importlib
import json
import os
import sys
import time
import traceback

VERIF = os.path.dirname(os.path.dirname(os.path.abspath(__file__)))
REPO = os.environ.get("VERIF_REPO", "/repo")
SRC = os.path.join(REPO, "src")


def use_repo():
    """Put the tree under test first on sys.path and make sure it is the one imported."""
    os.environ.setdefault("REDUINO_VERIF", "1")
    if SRC in sys.path:
        sys.path.remove(SRC)
    sys.path.insert(0, SRC)
    for name in [m for m in sys.modules if m == "Reduino" or m.startswith("Reduino.")]:
        mod = sys.modules[name]
        f = getattr(mod, "__file__", "") or ""
        if not f.startswith(SRC):
            del sys.modules[name]
    import Reduino  # noqa

    f = os.path.realpath(Reduino.__file__)
    if not f.startswith(os.path.realpath(SRC)):
        raise HarnessError(f"Reduino imported from {f}, expected under {SRC}")


class HarnessError(Exception):
    pass


def shard_seed(seed: int, pid: str, name: str) -> int:
    h = hashlib.sha256(f"{seed}:{pid}:{name}".encode()).digest()
    return int.from_bytes(h[:8], "big") % (2**63)


def case_hash(case) -> str:
    return hashlib.sha256(json.dumps(case, sort_keys=True, default=repr).encode()).hexdigest()[:16]


class Result:
    """Mergeable outcome of one shard."""

    def __init__(self):
        self.evaluations = 0
        self.nontrivial = set()  # hashes of distinct non-trivial cases
        self.counters = {}
        self.samples = []
        self.failures = []
        self.exhaustive = None
        self.nontrivial_enum = 0  # non-trivial cases distinct by construction (enumerations)

    def count(self, label, n=1):
        self.counters[label] = self.counters.get(label, 0) + n

    def case(self, case, nontrivial: bool, sample_every=0):
        """Record one evaluated case."""
        self.evaluations += 1
        if nontrivial:
            self.nontrivial.add(case_hash(case))
            if len(self.samples) < 2:
                self.samples.append(case)

    def fail(self, bucket, case, expected, observed):
        self.failures.append(
            {"bucket": bucket, "case": case, "expected": str(expected)[:2000], "observed": str(observed)[:2000]}
        )

    def merge(self, other: "Result"):
        self.evaluations += other.evaluations
        self.nontrivial |= other.nontrivial
        self.nontrivial_enum += other.nontrivial_enum
        for k, v in other.counters.items():
            self.counters[k] = self.counters.get(k, 0) + v
        self.samples.extend(other.samples)
        self.failures.extend(other.failures)
        if other.exhaustive is not None:
            self.exhaustive = other.exhaustive if self.exhaustive is None else (self.exhaustive and other.exhaustive)


def _shard_entry(args):
    modname, name, seed, tier, kwargs = args
    try:
        use_repo()
        mod = importlib.import_module(modname)
        r = mod.run_shard(name, seed, tier, **kwargs)
        return ("ok", name, r)
    except BaseException:  # harness error inside a worker
        return ("err", name, traceback.format_exc())


def run_forked(work, jobs):
    """Run every work unit in its own child forked from the main thread (identical start state for every shard, whatever
    the job count or scheduling: generation must not depend on which worker ran which shard)."""
    import pickle
    import tempfile

    jobs = max(1, jobs)
    tmpdir = tempfile.mkdtemp(prefix="verif-shards-")
    results = [None] * len(work)
    running = {}
    nxt = 0
    try:
        while nxt < len(work) or running:
            while nxt < len(work) and len(running) < jobs:
                path = os.path.join(tmpdir, f"{nxt}.pkl")
                pid = os.fork()
                if pid == 0:
                    code = 0
                    try:
                        out = _shard_entry(work[nxt])
                        with open(path, "wb") as f:
                            pickle.dump(out, f)
                    except BaseException:
                        code = 3
                        try:
                            with open(path, "wb") as f:
                                pickle.dump(("err", work[nxt][1], traceback.format_exc()), f)
                        except Exception:
                            pass
                    finally:
                        sys.stdout.flush()
                        sys.stderr.flush()
                        os._exit(code)
                running[pid] = (nxt, path)
                nxt += 1
            pid, status = os.wait()
            if pid not in running:
                continue
            idx, path = running.pop(pid)
            try:
                with open(path, "rb") as f:
                    results[idx] = pickle.load(f)
            except Exception:
                results[idx] = ("err", work[idx][1], f"shard process ended without a result (wait status {status})")
    finally:
        import shutil

        shutil.rmtree(tmpdir, ignore_errors=True)
    return results


def load_known():
    p = os.path.join(VERIF, "known_findings.json")
    if not os.path.exists(p):
        return []
    with open(p) as f:
        return json.load(f)["findings"]


def pin_hypothesis():
    """Make generation a pure function of (seed, strategy).

    Hypothesis biases draws towards constants harvested from whatever local modules happen to be in sys.modules, which would make
    the generated cases depend on import order and on which worker process ran which shard.  Replace the pool by an empty one.
    """
    try:
        import hypothesis.internal.conjecture.providers as _p
        from sortedcontainers import SortedSet

        empty = _p.Constants(integers=SortedSet(), floats=SortedSet(key=_p.float_to_int), bytes=SortedSet(), strings=SortedSet())
        _p._get_local_constants = lambda: empty
    except Exception:  # pragma: no cover - older/newer hypothesis without this mechanism
        pass


def hyp_settings(max_examples, **kw):
    from hypothesis import HealthCheck, Phase, settings

    pin_hypothesis()

    phases = kw.pop("phases", None)
    if phases is None:
        phases = (Phase.explicit, Phase.generate, Phase.shrink)
    return settings(
        max_examples=max_examples,
        database=None,
        deadline=None,
        derandomize=False,
        report_multiple_bugs=False,
        suppress_health_check=list(HealthCheck),
        phases=phases,
        **kw,
    )


def main(argv=None):
    ap = argparse.ArgumentParser()
    ap.add_argument("id")
    ap.add_argument("--tier", default=os.environ.get("VERIF_TIER", "quick"), choices=["quick", "thorough"])
    ap.add_argument("--replay")
    ap.add_argument("--jobs", type=int, default=int(os.environ.get("VERIF_JOBS", "16")))
    ap.add_argument("--only", help="run only shards whose name contains this text (debugging)")
    a = ap.parse_args(argv)
    pid = a.id.upper()
    seed = int(os.environ.get("VERIF_SEED", "1") or "1")
    t0 = time.time()
    try:
        use_repo()
        modname = f"checks.{pid.lower()}"
        mod = importlib.import_module(modname)
    except Exception:
        traceback.print_exc()
        print(f"HARNESS-ERROR property={pid} cannot load check")
        return 2

    if a.replay:
        with open(a.replay) as f:
            rep = json.load(f)
        try:
            fails = mod.replay(rep["case"])
        except Exception:
            traceback.print_exc()
            return 2
        if fails:
            for fl in fails:
                print(f"REPLAY-FAIL bucket={fl['bucket']} expected={fl['expected']!r} observed={fl['observed']!r}")
            print(f"VIOLATION property={pid} replay={a.replay}")
            return 1
        print(f"REPLAY-PASS property={pid}")
        return 0

    total = Result()
    known_lines = []
    known_reported = 0
    fixed_regressions = []
    # ---- known findings: re-run witnesses through the same oracle ----
    try:
        for kf in load_known():
            if kf["property"] != pid:
                continue
            fails = mod.replay(kf["witness"])
            total.count("known_witnesses_replayed")
            if kf.get("status") == "open":
                if fails:
                    known_reported += 1
                    known_lines.append(f"KNOWN-FINDING: property={pid} {kf['id']}: {kf['fails_as']}")
                else:
                    total.count("known_witnesses_no_longer_failing")
            else:  # fixed: plain regression case, suppresses nothing
                for fl in fails:
                    fl = dict(fl)
                    fl["bucket"] = "regression-of-fixed:" + kf["id"] + ":" + fl["bucket"]
                    fixed_regressions.append(fl)
    except Exception:
        traceback.print_exc()
        print(f"HARNESS-ERROR property={pid} known-findings replay crashed")
        return 2

    # ---- generated campaign ----
    units = mod.plan(a.tier)
    if a.only:
        units = [u for u in units if a.only in u[0]]
    work = [(modname, name, shard_seed(seed, pid, name), a.tier, kw) for name, kw in units]
    errors = []
    outs = run_forked(work, a.jobs)
    for st, name, r in outs:
        if st == "ok":
            total.merge(r)
        else:
            errors.append((name, r))
    if errors:
        for name, tb in errors:
            sys.stderr.write(f"--- shard {name} crashed ---\n{tb}\n")
        print(f"HARNESS-ERROR property={pid} {len(errors)} shard(s) crashed")
        return 2

    total.failures.extend(fixed_regressions)
    # a finding identified by call site + statement kind (bucket) rather than by one input: reported as KNOWN-FINDING, not VIOLATION
    site_kf = {kf["suppress_bucket"]: kf for kf in load_known()
               if kf["property"] == pid and kf.get("status") == "open" and kf.get("suppress_bucket")}
    kept = []
    for fl in total.failures:
        if fl["bucket"] in site_kf:
            total.count("known_site_hits:" + fl["bucket"])
        else:
            kept.append(fl)
    total.failures = kept
    # ---- violations: one per bucket ----
    buckets = {}
    for fl in total.failures:
        b = buckets.setdefault(fl["bucket"], fl)
        # keep the smallest case per bucket
        if len(json.dumps(fl["case"], default=repr)) < len(json.dumps(b["case"], default=repr)):
            buckets[fl["bucket"]] = fl
    rdir = os.path.join(VERIF, "replays", pid)
    vio_lines = []
    for b, fl in sorted(buckets.items()):
        os.makedirs(rdir, exist_ok=True)
        h = case_hash([b, fl["case"]])
        path = os.path.join(rdir, f"{h}.json")
        with open(path, "w") as f:
            json.dump(
                {"property": pid, "seed": seed, "tier": a.tier, "bucket": b, "case": fl["case"],
                 "expected": fl["expected"], "observed": fl["observed"]},
                f, indent=1, default=repr)
        vio_lines.append((b, path, fl))

    wall = time.time() - t0
    cov = {
        "evaluations": total.evaluations,
        "distinct_nontrivial": len(total.nontrivial) + total.nontrivial_enum,
        "rule": mod.RULE,
        "samples": total.samples[:6],
        "counters": dict(sorted(total.counters.items())),
        "known_findings_reported": known_reported,
        "violation_buckets": sorted(buckets),
    }
    if total.exhaustive is not None:
        cov["exhaustive"] = bool(total.exhaustive)
    extra = getattr(mod, "coverage_extra", None)
    if extra:
        cov.update(extra(total))
    ev = {
        "property_id": pid,
        "tier": a.tier,
        "seed": seed,
        "level": mod.LEVEL,
        "coverage": cov,
        "assumptions": list(getattr(mod, "ASSUMPTIONS", [])),
        "wall_s": round(wall, 2),
        "violations": len(buckets),
        "tool_versions": _versions(),
    }
    evdir = os.environ.get("VERIF_EVIDENCE_DIR") or os.path.join(VERIF, "evidence")
    os.makedirs(evdir, exist_ok=True)
    with open(os.path.join(evdir, f"{pid}.json"), "w") as f:
        json.dump(ev, f, indent=1, default=repr)
        f.write("\n")

    for ln in known_lines:
        print(ln)
    print(f"property={pid} tier={a.tier} seed={seed} evaluations={total.evaluations} "
          f"distinct_nontrivial={len(total.nontrivial) + total.nontrivial_enum} violations={len(buckets)} wall_s={wall:.1f}")
    if vio_lines:
        for b, path, fl in vio_lines:
            print(f"  bucket={b}\n    expected: {fl['expected'][:300]}\n    observed: {fl['observed'][:300]}")
            print(f"VIOLATION property={pid} replay={path}")
        return 1
    return 0


def _versions():
    import platform

    v = {"python": platform.python_version()}
    try:
        import hypothesis

        v["hypothesis"] = hypothesis.__version__
    except Exception:
        pass
    return v
