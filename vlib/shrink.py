"""Structural reducer (ddmin style) over the generator's node trees and plain lists."""
from __future__ import annotations


def _paths(nodes, prefix=()):
    out = []
    for i, n in enumerate(nodes):
        out.append(prefix + (i,))
        if n[0] == "b":
            out.extend(_paths(n[2], prefix + (i,)))
    return out


def _delete(nodes, path):
    nodes = [list(n) if n[0] == "b" else n for n in nodes]
    if len(path) == 1:
        i = path[0]
        n = nodes[i]
        j = i + 1
        if n[0] == "b" and n[1].startswith("if "):
            while j < len(nodes) and nodes[j][0] == "b" and (nodes[j][1].startswith("elif ") or nodes[j][1].startswith("else")):
                j += 1
        del nodes[i:j]
        return [tuple(n) if isinstance(n, list) else n for n in nodes]
    i = path[0]
    n = nodes[i]
    child = _delete(n[2], path[1:])
    nodes[i] = (n[0], n[1], child if child else [("s", "pass")])
    return [tuple(x) if isinstance(x, list) else x for x in nodes]


def _unwrap(nodes, path):
    """Replace a block by its children (if/for/while bodies)."""
    nodes = list(nodes)
    if len(path) == 1:
        i = path[0]
        n = nodes[i]
        if n[0] != "b" or n[1].startswith(("def ", "elif ", "else")):
            return None
        if n[1].startswith("if ") and i + 1 < len(nodes) and nodes[i + 1][0] == "b" and nodes[i + 1][1].startswith(("elif ", "else")):
            return None
        return nodes[:i] + list(n[2]) + nodes[i + 1:]
    i = path[0]
    n = nodes[i]
    child = _unwrap(n[2], path[1:])
    if child is None:
        return None
    nodes[i] = (n[0], n[1], child)
    return nodes


def shrink_nodes(nodes, still_fails, max_evals=120, protect=None):
    """Greedy 1-minimal reduction: still_fails(nodes) -> bool."""
    evals = 0
    changed = True
    while changed and evals < max_evals:
        changed = False
        for path in sorted(_paths(nodes), key=lambda p: (-len(p), p), reverse=False)[::-1]:
            if evals >= max_evals:
                break
            if protect is not None and len(path) == 1 and protect(nodes[path[0]]):
                continue
            for op in (_delete, _unwrap):
                try:
                    cand = op(nodes, path)
                except (IndexError, TypeError):
                    cand = None
                if cand is None or cand == nodes:
                    continue
                evals += 1
                if still_fails(cand):
                    nodes = cand
                    changed = True
                    break
            if changed:
                break
    return nodes, evals


def shrink_list(items, still_fails, max_evals=150):
    """ddmin over a flat list (operation histories)."""
    evals = 0
    n = 2
    items = list(items)
    while len(items) >= 2 and evals < max_evals:
        chunk = max(1, len(items) // n)
        reduced = False
        for i in range(0, len(items), chunk):
            cand = items[:i] + items[i + chunk:]
            if not cand:
                continue
            evals += 1
            if still_fails(cand):
                items = cand
                n = max(n - 1, 2)
                reduced = True
                break
            if evals >= max_evals:
                break
        if not reduced:
            if chunk == 1:
                break
            n = min(len(items), n * 2)
    return items, evals
