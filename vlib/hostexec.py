"""CPython reference executor: runs the *same script text* against instrumented Reduino host modules.

run_host(src, n, tape) forks, executes the script with the top-level `while True:` rewritten into n passes, and
returns {"events": [...], "flags": {...}} or {"error": "..."} (script not well-defined under CPython).
Events: [t_ms, kind, *args]  kinds: MARK(setup|loop k|end) SER(type,value) DELAY(ms) PIN(pin,level) PINMODE(pin,mode)
        READ(kind,pin,value) SERIAL_BEGIN(baud) SERVO(pin,kind,value) SREAD(text) LCD(dump id rows) MOTOR(...)
"""
from __future__ import annotations

import ast
import json
import os
import resource
import struct
import sys
import traceback

ANALOG_BASE = 14


def pin_no(p):
    if isinstance(p, bool):
        return int(p)
    if isinstance(p, int):
        return p
    if isinstance(p, float):
        return int(p)
    s = str(p).strip()
    if s.isdigit():
        return int(s)
    if len(s) >= 2 and s[0] == "A" and s[1:].isdigit():
        return ANALOG_BASE + int(s[1:])
    raise ValueError(f"unknown pin {p!r}")


class Tape:
    def __init__(self, tape: dict):
        self.t0 = tape.get("t0_us", 0) / 1000.0
        self.jitter = list(tape.get("jitter", []))
        self.q = {k: {int(p): list(v) for p, v in (tape.get(k) or {}).items()} for k in ("digital", "analog", "pulse")}
        self.last = {k: {} for k in self.q}
        self.serial = list(tape.get("serial", []))

    def take(self, kind, pin):
        q = self.q[kind].setdefault(pin, [])
        if q:
            self.last[kind][pin] = q.pop(0)
        return self.last[kind].get(pin, 0)


def f32exact(v: float) -> bool:
    if v != v or v in (float("inf"), float("-inf")):
        return False
    try:
        return struct.unpack("f", struct.pack("f", v))[0] == v
    except OverflowError:
        return False


class _Instrument(ast.NodeTransformer):
    """Wrap operations so the reference run can report dynamic membership in excluded classes."""

    def visit_BinOp(self, node):
        self.generic_visit(node)
        opn = type(node.op).__name__
        return ast.copy_location(
            ast.Call(func=ast.Name(id="__binop", ctx=ast.Load()), args=[ast.Constant(opn), node.left, node.right], keywords=[]), node)

    def visit_BoolOp(self, node):
        self.generic_visit(node)
        # keep short-circuit semantics: wrap each operand to inspect its type
        node.values = [ast.copy_location(ast.Call(func=ast.Name(id="__boolopnd", ctx=ast.Load()), args=[v], keywords=[]), v) for v in node.values]
        return node

    def visit_AugAssign(self, node):
        self.generic_visit(node)
        opn = type(node.op).__name__
        load = ast.Name(id=node.target.id, ctx=ast.Load()) if isinstance(node.target, ast.Name) else None
        if load is None:
            return node
        new = ast.Assign(targets=[node.target], value=ast.Call(func=ast.Name(id="__binop", ctx=ast.Load()),
                                                                args=[ast.Constant(opn), load, node.value], keywords=[]))
        return ast.copy_location(new, node)

    def visit_Assign(self, node):
        self.generic_visit(node)
        if len(node.targets) == 1 and isinstance(node.targets[0], ast.Name):
            node.value = ast.copy_location(ast.Call(func=ast.Name(id="__obs", ctx=ast.Load()),
                                                    args=[ast.Constant(node.targets[0].id), node.value], keywords=[]), node.value)
        return node

    def visit_FormattedValue(self, node):
        self.generic_visit(node)
        node.value = ast.copy_location(ast.Call(func=ast.Name(id="__strarg", ctx=ast.Load()), args=[node.value], keywords=[]), node.value)
        return node

    def visit_Call(self, node):
        self.generic_visit(node)
        if isinstance(node.func, ast.Name) and node.func.id == "str" and len(node.args) == 1:
            node.args = [ast.copy_location(ast.Call(func=ast.Name(id="__strarg", ctx=ast.Load()), args=[node.args[0]], keywords=[]), node.args[0])]
        return node


def rewrite(src: str, instrument=True):
    tree = ast.parse(src)
    new = []
    found = False
    for st in tree.body:
        if isinstance(st, ast.While) and isinstance(st.test, ast.Constant) and st.test.value is True and not found:
            found = True
            loop = ast.parse("for __pass in range(__N):\n    __mark(__pass)\n").body[0]
            loop.body.extend(st.body)
            new.append(loop)
        else:
            new.append(st)
    if not found:
        new.append(ast.parse("for __pass in range(__N):\n    __mark(__pass)\n").body[0])
    tree.body = new
    if instrument:
        tree = _Instrument().visit(tree)
    ast.fix_missing_locations(tree)
    return tree


def _execute(src: str, n: int, tape: dict, opts: dict):
    import Reduino
    import Reduino.Actuators as Act
    import Reduino.Communication as Comm
    import Reduino.Core as Core
    import Reduino.Displays as Disp
    import Reduino.Sensors as Sens
    import Reduino.Utils as Utils

    T = Tape(tape)
    ev = []
    clock = [T.t0]
    flags = {}
    types_seen = {}

    def emit(kind, *args):
        ev.append([round(clock[0], 6), kind, *args])

    def sleep(ms, **k):
        if ms < 0:
            raise ValueError("duration must be non-negative")
        emit("DELAY", float(ms))
        clock[0] += float(ms)

    Utils.sleep = sleep
    Act.sleep = sleep

    # ---- serial monitor
    lcds = []

    class Mon:
        def __init__(self, baud_rate=9600, port=None, timeout=1.0, newline="\n"):
            if baud_rate <= 0:
                raise ValueError("baud_rate must be positive")
            emit("SERIAL_BEGIN", int(baud_rate))

        def write(self, value=""):
            if isinstance(value, str) and value.startswith("@@DUMP"):
                emit("SER", "str", value)
                for i, l in enumerate(lcds):
                    emit("LCD", i, l.dump().split("\n"), (int(getattr(l, "brightness_level", 255)) if getattr(l, "backlight_on", True) else 0))
                return value
            tname = type(value).__name__
            emit("SER", tname, value if isinstance(value, (int, float, str, bool)) else repr(value))
            return f"{value}"

        def read(self, emit_mode="both", **kw):
            text = T.serial.pop(0) if T.serial else ""
            emit("SREAD", text)
            return text

        def connect(self, port):
            pass

        def close(self):
            pass

    Comm.SerialMonitor = Mon
    Reduino.target = lambda *a, **k: ""

    # ---- core pins
    latch = {}

    def pin_mode(pin, mode):
        emit("PINMODE", pin_no(pin), {"INPUT": 0, "OUTPUT": 1, "INPUT_PULLUP": 2}.get(mode, mode))

    def digital_write(pin, value):
        p = pin_no(pin)
        latch[p] = 1 if value else 0
        emit("PIN", p, 255 if value else 0)

    def analog_write(pin, value):
        emit("PIN", pin_no(pin), int(value))

    def digital_read(pin):
        p = pin_no(pin)
        if p in latch:
            v = latch[p]
        else:
            v = 1 if T.take("digital", p) else 0
        emit("READ", "D", p, v)
        return v

    def analog_read(pin):
        p = pin_no(pin)
        v = int(T.take("analog", p))
        emit("READ", "A", p, v)
        return v

    for name, fn in dict(pin_mode=pin_mode, digital_write=digital_write, analog_write=analog_write, digital_read=digital_read, analog_read=analog_read).items():
        setattr(Core, name, fn)

    # ---- actuators: real classes, wrapped so each successful state write appends a level event
    RealLed, RealRGB, RealServo, RealMotor = Act.Led, Act.RGBLed, Act.Servo, Act.DCMotor

    class Led(RealLed):
        def set_brightness(self, value):
            super().set_brightness(value)
            emit("PIN", pin_no(self.pin), self.brightness)

    class RGBLed(RealRGB):
        def set_color(self, red, green, blue):
            super().set_color(red, green, blue)
            for p, v in zip(self.pins, self.get_color()):
                emit("PIN", pin_no(p), v)

    class Servo(RealServo):
        def write(self, angle):
            super().write(angle)
            emit("SERVO", pin_no(self.pin), "angle", self.read(), self.read_us())

        def write_us(self, pulse):
            super().write_us(pulse)
            emit("SERVO", pin_no(self.pin), "pulse", self.read(), self.read_us())

    class DCMotor(RealMotor):
        def _out(self):
            e = self.get_applied_speed()
            duty = int(abs(e) * 255.0 + 0.5)
            mode = self.get_mode()
            if mode == "brake":
                a, b, duty = 1, 1, 0
            elif duty == 0:
                a, b = 0, 0
            else:
                a, b = (1, 0) if e > 0 else (0, 1)
            emit("MOTOR", [pin_no(p) for p in self.pins], a, b, duty, abs(e) * 255.0)

        def _apply_speed(self, speed):
            super()._apply_speed(speed)
            self._out()

        def stop(self):
            super().stop()
            self._out()

        def coast(self):
            super().coast()
            self._out()

    Act.Led, Act.RGBLed, Act.Servo, Act.DCMotor = Led, RGBLed, Servo, DCMotor

    # ---- sensors bound to the tape
    RealButton, RealPot, RealUltra = Sens.Button, Sens.Potentiometer, Sens.Ultrasonic

    def Button(pin, *, on_click=None, state_provider=None):
        p = pin_no(pin)

        def prov():
            v = 1 if T.take("digital", p) else 0
            emit("READ", "D", p, v)
            return bool(v)

        return RealButton(pin, on_click=on_click, state_provider=prov)

    def Potentiometer(pin, *, value_provider=None):
        p = pin_no(pin)

        def prov():
            v = int(T.take("analog", p))
            emit("READ", "A", p, v)
            return v

        return RealPot(pin, value_provider=prov)

    def Ultrasonic(trig, echo, **kw):
        e = pin_no(echo)
        kw.pop("distance_provider", None)

        def prov():
            us = T.take("pulse", e)
            emit("READ", "P", e, us)
            return us * 0.0343 / 2.0

        return RealUltra(trig, echo, distance_provider=prov, **kw)

    Sens.Button, Sens.Potentiometer, Sens.Ultrasonic = Button, Potentiometer, Ultrasonic

    RealLCD = Disp.LCD

    class LCD(RealLCD):
        def __init__(self, *a, **k):
            super().__init__(*a, **k)
            lcds.append(self)

        def glyph(self, slot, bitmap):
            super().glyph(slot, bitmap)
            emit("GLYPH", lcds.index(self), int(slot), list(self.glyphs[int(slot)]))

    Disp.LCD = LCD

    # ---- dynamic class membership reports
    def flag(name):
        flags[name] = flags.get(name, 0) + 1

    import operator as _op

    OPS = {"Add": _op.add, "Sub": _op.sub, "Mult": _op.mul, "Div": _op.truediv, "FloorDiv": _op.floordiv, "Mod": _op.mod,
           "Pow": _op.pow, "BitAnd": _op.and_, "BitOr": _op.or_, "BitXor": _op.xor, "LShift": _op.lshift, "RShift": _op.rshift}

    def chk(v):
        if isinstance(v, float) and not f32exact(v):
            flag("float_not_f32_exact")
        if isinstance(v, int) and not isinstance(v, bool) and abs(v) > 32767:
            flag("int_beyond_16bit")
        if isinstance(v, int) and not isinstance(v, bool) and abs(v) > 2**31 - 1:
            flag("int_beyond_32bit")
        return v

    def binop(opn, a, b):
        if opn in ("FloorDiv", "Mod"):
            if isinstance(a, float) or isinstance(b, float):
                flag("floordiv_mod_float")
            elif (a < 0) != (b < 0) and a != 0 and (a % b != 0):
                flag("floordiv_mod_sign")
        if opn == "Div" and not isinstance(a, float) and not isinstance(b, float):
            flag("int_truediv")
        if opn == "Pow":
            flag("pow")
        if isinstance(a, bool) or isinstance(b, bool):
            flag("bool_arith")
        if opn == "Add" and isinstance(a, str) != isinstance(b, str):
            flag("str_plus_nonstr")
        if opn == "Mult" and (isinstance(a, str) or isinstance(b, str)):
            flag("str_repeat")
        return chk(OPS[opn](a, b))

    def boolopnd(v):
        if not isinstance(v, bool):
            flag("boolop_nonbool_operand")
        return v

    def strarg(v):
        if isinstance(v, bool):
            flag("str_of_bool")
        if isinstance(v, float):
            flag("str_of_float")
        return v

    observed = {}

    def obs(name, v):
        observed.setdefault(name, set()).add(type(v).__name__)
        return v

    g = {"__name__": "__reduino_script__", "__N": n, "__binop": binop, "__boolopnd": boolopnd, "__strarg": strarg, "__obs": obs}

    def live_data():
        tot = 0
        for name, v in g.items():
            if name.startswith("__"):
                continue
            if isinstance(v, list):
                tot += len(v) + sum(len(x) for x in v if isinstance(x, str))
            elif isinstance(v, str):
                tot += len(v)
        return tot

    def mark(k):
        emit("LIVE", live_data())
        if T.jitter:
            clock[0] += float(T.jitter.pop(0))
        emit("MARK", f"loop {k}")

    g["__mark"] = mark
    tree = rewrite(src, instrument=opts.get("instrument", True))
    code = compile(tree, "<script>", "exec")
    emit("MARK", "setup")
    out_fd = os.dup(1)
    devnull = os.open(os.devnull, os.O_WRONLY)
    os.dup2(devnull, 1)  # host-only print() must not pollute the pipe
    try:
        exec(code, g)
    finally:
        os.dup2(out_fd, 1)
    emit("LIVE", live_data())
    emit("MARK", "end")
    # type observations for C02: final python types of user globals
    for k, v in g.items():
        if not k.startswith("__") and isinstance(v, (int, float, str, bool, list)):
            types_seen[k] = type(v).__name__
    return {"events": ev, "flags": flags, "types": types_seen, "observed": {k: sorted(v) for k, v in observed.items()}}


def run_host(src: str, n: int, tape: dict | None = None, opts: dict | None = None, cpu_s: int = 10):
    """Fork, run, return result dict. The child never returns into the caller's stack."""
    r, w = os.pipe()
    pid = os.fork()
    if pid == 0:
        try:
            os.close(r)
            resource.setrlimit(resource.RLIMIT_CPU, (cpu_s, cpu_s + 2))
            try:
                res = _execute(src, n, tape or {}, opts or {})
            except BaseException as e:  # script not well-defined under CPython
                res = {"error": f"{type(e).__name__}: {e}", "tb": traceback.format_exc()[-600:]}
            data = json.dumps(res, default=repr).encode()
            with os.fdopen(w, "wb") as f:
                f.write(data)
        finally:
            os._exit(0)
    os.close(w)
    chunks = []
    with os.fdopen(r, "rb") as f:
        while True:
            b = f.read(1 << 16)
            if not b:
                break
            chunks.append(b)
    _, status = os.waitpid(pid, 0)
    data = b"".join(chunks)
    if not data:
        return {"error": f"reference run died (status {status})"}
    return json.loads(data)
