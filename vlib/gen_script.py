"""Typed, constructive script grammar shared by the program-level checks.

A program is a tree of nodes:
    ("s", "text")                      simple statement (one logical line)
    ("b", "header:", [children])       block; elif/else/ blocks directly follow their `if`
render(nodes) -> source text.  The generator tracks the Python type of every name so the result runs under CPython.

Feature flags (Profile.off) switch construct classes off *by construction*; they are how known-finding classes are
excluded from a campaign (DESIGN 2.9).  The dynamic membership test on the reference run is the second line.
"""
from __future__ import annotations

from dataclasses import dataclass, field

from hypothesis import strategies as st

DEVICE_HEADER = (
    "from Reduino.Actuators import RGBLed, Servo, DCMotor, Buzzer\n"
    "from Reduino.Sensors import Button, Potentiometer, Ultrasonic\n"
    "from Reduino.Displays import LCD\n"
)

HEADER = (
    "from Reduino import target\n"
    "from Reduino.Actuators import Led\n"
    "from Reduino.Communication import SerialMonitor\n"
    "from Reduino.Core import pin_mode, digital_write, analog_write, digital_read, analog_read, OUTPUT, INPUT\n"
    "from Reduino.Utils import sleep\n"
)

SAFE_CHARS = "abcdefghijklmnopqrstuvwxyzABCDEFGHIJKLMNOPQRSTUVWXYZ0123456789 _-+*/=<>()[]{}.,:;!?@$&|^~"
HOSTILE_CHARS = SAFE_CHARS + "\"'\\#%`"
LEXER_STRESS_ENDS = ["\\", "\\\\", "\\'", "\\\"", "'", "\"", "#", "\\#", "'#", "\"#", "\\n", "#\\"]


@dataclass
class Profile:
    name: str = "core"
    max_stmts: int = 14          # per block list
    max_depth: int = 3
    expr_depth: int = 3
    main_loop: float = 0.8       # probability of a top-level while True
    helpers: int = 2
    hostile_strings: bool = False
    devices: float = 0.0         # probability that a program declares extra devices
    loop_decl: float = 0.0       # probability that a hoistable device is declared at the top of the main-loop body
    off: set = field(default_factory=set)   # feature classes switched off by construction
    weights: dict = field(default_factory=dict)

    def on(self, flag):
        return flag not in self.off


# classes excluded while the corresponding findings are open (see known_findings.json)
DEFAULT_OFF = {
    "boolop_nonbool",      # `a or b` on non-bools
    "str_of_bool",         # str(flag) / f"{flag}"
    "retype",              # a name changes its type
    "multi_signature",     # helper called with different argument types
    "branch_first_assign", # first assignment inside a branch/loop
    "loop_first_assign",   # first assignment in the main-loop body
    "str_lit_plus_lit",    # "a" + "b"
    "try",
    "list_elem_assign",
    "call_arg_order",      # f(a(), b()): C++ evaluates arguments in an unspecified order
    "macro_effectful_arg", # abs/min/max are macros and a < b < c repeats b: an effectful helper call there runs twice
    "for_bound_mutated",   # range(expr) is re-evaluated on every iteration in C
    "unannotated_param",   # parameter types are only inferred from call sites that are assignments
}


KEYWORDISH = ["passes", "returned", "breaker", "continued", "iffy", "elsewhere", "elifant", "whiled", "fortune", "defcon", "printed", "sleeper", "targeted", "imported",
              "fromage", "globally", "tryout", "excepted", "notch", "andy", "orbit", "inner", "isle", "withal", "classy", "delta", "asserted", "raised_f", "passive_f", "format_f"]
KEYWORDISH_HELPERS = ["pass_h", "print_h", "return_h", "for_h", "if_h", "while_h", "def_h", "global_h", "sleep_h", "import_h"]


class Gen:
    def __init__(self, draw, profile: Profile):
        self.draw = draw
        self.p = profile
        self.vars = {}      # name -> type ('int','float','bool','str','list_int','list_float')
        self.const = set()  # names never re-assigned after initialisation
        self.readonly = set()  # names that must not be written in the current context
        self.list_len = {}  # list name -> static minimum length (only top-level straight-line mutation)
        self.helpers = []   # (name, [param types], ret type or None)
        self.features = set()
        self.counter = 0
        self.in_func = None
        self.loop_vars = []
        self.fuel_id = 0
        self.no_calls = 0
        self.devs = {}      # device name -> kind
        self.loop_devs = []  # declaration lines to put at the top of the main-loop body
        self.loop_only = set()  # devices that exist only inside the main loop
        self.in_main_now = False
        self.extra_weights = {}

    # ---------------------------------------------------------------- helpers
    def d(self, strategy):
        return self.draw(strategy)

    def choice(self, seq):
        # index draw, not sampled_from: sampled_from derives its label from hash(element), which is id-based for the
        # lambdas used here and would make generation depend on memory layout
        seq = list(seq)
        return seq[self.d(st.integers(0, len(seq) - 1))]

    def chance(self, p):
        return self.d(st.floats(0, 1)) < p

    def names(self, t, writable=False):
        out = [n for n, ty in self.vars.items() if ty == t]
        if writable:
            out = [n for n in out if n not in self.const and n not in self.readonly and n not in self.loop_vars]
        return out

    def feat(self, f):
        self.features.add(f)

    # ---------------------------------------------------------------- literals
    def int_lit(self, lo=0, hi=300):
        special = [v for v in (0, 1, 2, 3, 5, 7, 10, 100, 255) if lo <= v <= hi] or [lo]
        return str(self.d(st.one_of(st.integers(lo, hi), st.sampled_from(special))))

    def float_lit(self):
        k = self.d(st.integers(-160, 160))
        v = k / 8.0
        return repr(v)

    def str_lit(self):
        chars = HOSTILE_CHARS if self.p.hostile_strings else SAFE_CHARS
        s = self.d(st.text(alphabet=chars, max_size=8))
        if self.p.hostile_strings and self.d(st.integers(0, 3)) == 0:
            # literal boundaries that stress the line lexer: a closing quote right after an (escaped) backslash, quote / comment characters at either end
            s = s[:6] + self.choice(LEXER_STRESS_ENDS)
            if self.d(st.integers(0, 3)) == 0:
                s = self.choice(LEXER_STRESS_ENDS) + s
        if "target" in s:
            s = s.replace("target", "tgt")
        return repr(s)

    # ---------------------------------------------------------------- expressions
    def expr(self, t, depth=None):
        depth = self.p.expr_depth if depth is None else depth
        return getattr(self, "e_" + t)(depth)

    def e_int(self, depth):
        leafs = [lambda: self.int_lit()]
        nm = self.names("int")
        if nm:
            leafs += [lambda: self.choice(nm)] * 3
        if depth <= 0:
            return self.choice(leafs)()
        opts = list(leafs)
        sub = lambda: self.e_int(depth - 1)
        opts += [
            lambda: f"({sub()} + {sub()})",
            lambda: f"({sub()} - {sub()})",
            lambda: f"({sub()} * {self.int_lit(0, 4)})",
            lambda: f"(-{sub()})",
            lambda: self.macro(lambda: f"abs({sub()})"),
            lambda: self.macro(lambda: f"min({sub()}, {sub()})"),
            lambda: self.macro(lambda: f"max({sub()}, {sub()})"),
            lambda: f"({sub()} if {self.e_bool(depth - 1)} else {sub()})",
            lambda: f"int({self.e_float(depth - 1)})",
            lambda: (self.feat("floordiv"), self.macro(lambda: f"(abs({sub()}) // {self.int_lit(1, 9)})"))[1],
            lambda: (self.feat("mod"), self.macro(lambda: f"(abs({sub()}) % {self.int_lit(1, 9)})"))[1],
            lambda: (self.feat("len_literal"), f"len({self.str_lit()})")[1],
            # arithmetic on truth values is int arithmetic: (a > 3) + (b > 3) counts
            lambda: (self.feat("bool_sum"), f"({self.e_bool(depth - 1)} + {self.e_bool(depth - 1)})")[1],
            lambda: (self.feat("bool_sum"), f"(({self.e_bool(depth - 1)} + {self.e_bool(depth - 1)}) * {self.int_lit(2, 5)})")[1],
        ]
        lst = [n for n in self.names("list_int") if self.list_len.get(n, 0) > 0]
        if lst:
            def idx():
                n = self.choice(lst)
                ln = self.list_len[n]
                i = self.d(st.integers(-ln, ln - 1))
                self.feat("list_index_neg" if i < 0 else "list_index")
                return f"{n}[{i}]"
            opts += [idx, idx]
        cs = self.names("str") + self.names("list_int") + self.names("list_float")
        if not self.p.on("len_of_mutable"):
            cs = [n for n in cs if n in self.const]
        if cs:
            opts += [lambda: (self.feat("len_name"), f"len({self.choice(cs)})")[1]] * 2
        if self.devs and not self.no_calls:
            g_ = self.dev_getter("int")
            if g_:
                opts.append(lambda g_=g_: g_)
        hs = [h for h in self.helpers if h[2] == "int" and h[0] != self.in_func]
        if hs and not self.no_calls:
            opts += [lambda: self.call(self.choice(hs), depth - 1)] * 2
        if self.p.on("pow"):
            opts += [lambda: (self.feat("int_pow"), f"(((({sub()}) % 7) - 3) ** {self.int_lit(0, 3)})")[1]]
        if self.p.on("floordiv_mod_neg"):
            nz = lambda: self.choice([str(v) for v in (-9, -4, -3, -2, -1, 1, 2, 3, 5, 7)])
            opts += [lambda: (self.feat("floordiv_signed"), f"({sub()} // {nz()})")[1], lambda: (self.feat("mod_signed"), f"({sub()} % {nz()})")[1]]
        return self.choice(opts)()

    def e_float(self, depth):
        leafs = [lambda: self.float_lit()]
        nm = self.names("float")
        if nm:
            leafs += [lambda: self.choice(nm)] * 3
        if depth <= 0:
            return self.choice(leafs)()
        sub = lambda: self.e_float(depth - 1)
        opts = list(leafs) + [
            lambda: f"({sub()} + {sub()})",
            lambda: f"({sub()} - {sub()})",
            lambda: f"({sub()} * {self.choice(['0.5', '2.0', '0.25', '1.5', '-1.0'])})",
            lambda: f"({sub()} / {self.choice(['2.0', '4.0', '0.5', '8.0'])})",
            lambda: f"({self.e_int(depth - 1)} * {self.choice(['0.5', '0.25', '1.5'])})",
            lambda: f"({self.e_int(depth - 1)} + {sub()})",
            lambda: f"float({self.e_int(depth - 1)})",
            lambda: f"(-{sub()})",
            lambda: f"({sub()} if {self.e_bool(depth - 1)} else {sub()})",
        ]
        if self.p.on("float_minmaxabs"):
            opts += [lambda: self.macro(lambda: f"abs({sub()})"), lambda: self.macro(lambda: f"max({sub()}, {sub()})"),
                     lambda: self.macro(lambda: f"min({sub()}, {sub()})")]
        if self.p.on("pow"):
            opts.append(lambda: (self.feat("float_pow"), f"((({sub()}) % 4.0) ** {self.choice(['2', '0', '1', '3'])})")[1])   # base folded into [0, 4): powers of powers stay float32-exact
        if self.p.on("int_truediv"):
            opts.append(lambda: (self.feat("int_truediv"), f"({self.e_int(depth - 1)} / {self.choice(['1', '2', '4', '8', '-2', '-4'])})")[1])
        if self.p.on("floordiv_mod_neg"):
            fd = lambda: self.choice(["2.0", "0.5", "-2.0", "4", "-1.5", "3"])
            opts += [lambda: (self.feat("float_floordiv"), f"({sub()} // {fd()})")[1], lambda: (self.feat("float_mod"), f"({sub()} % {fd()})")[1]]
        if self.devs and not self.no_calls:
            g_ = self.dev_getter("float")
            if g_:
                opts.append(lambda g_=g_: g_)
        hs = [h for h in self.helpers if h[2] == "float" and h[0] != self.in_func]
        if hs and not self.no_calls:
            opts += [lambda: self.call(self.choice(hs), depth - 1)] * 2
        lst = [n for n in self.names("list_float") if self.list_len.get(n, 0) > 0]
        if lst:
            def idx():
                n = self.choice(lst)
                ln = self.list_len[n]
                return f"{n}[{self.d(st.integers(-ln, ln - 1))}]"
            opts.append(idx)
        return self.choice(opts)()

    def e_bool(self, depth):
        leafs = [lambda: self.choice(["True", "False"])]
        nm = self.names("bool")
        if nm:
            leafs += [lambda: self.choice(nm)] * 2
        cmpi = lambda d: f"({self.e_int(d)} {self.choice(['<', '<=', '>', '>=', '==', '!='])} {self.e_int(d)})"
        if depth <= 0:
            return self.choice(leafs + [lambda: cmpi(0)])()
        sub = lambda: self.e_bool(depth - 1)
        opts = leafs + [
            lambda: cmpi(depth - 1), lambda: cmpi(depth - 1),
            lambda: f"({self.e_float(depth - 1)} {self.choice(['<', '<=', '>', '>='])} {self.e_float(depth - 1)})",
            lambda: (self.feat("cmp_chain"), f"({self.e_int(depth - 1)} <= " + self.macro(lambda: self.e_int(depth - 1)) + f" < {self.e_int(depth - 1)})")[1],
            lambda: f"(not {sub()})",
            lambda: (self.feat("and"), f"({sub()} and {sub()})")[1],
            lambda: (self.feat("or"), f"({sub()} or {sub()})")[1],
        ]
        snm = self.names("str")
        if snm:
            opts.append(lambda: (self.feat("str_eq"), f"({self.choice(snm)} {self.choice(['==', '!='])} {self.e_str(depth - 1)})")[1])
        if self.devs and not self.no_calls:
            g_ = self.dev_getter("bool")
            if g_:
                opts.append(lambda g_=g_: g_)
        hs = [h for h in self.helpers if h[2] == "bool" and h[0] != self.in_func]
        if hs and not self.no_calls:
            opts += [lambda: self.call(self.choice(hs), depth - 1)]
        return self.choice(opts)()

    def e_str(self, depth, need_var=False):
        nm = self.names("str")
        leafs = []
        if nm:
            leafs += [lambda: self.choice(nm)] * 3
        if not need_var or not nm:
            leafs += [lambda: self.str_lit()]
        if depth <= 0:
            return self.choice(leafs)()
        opts = list(leafs)
        if nm:
            v = lambda: self.choice(nm)
            opts += [
                lambda: (self.feat("str_concat"), f"({v()} + {self.str_lit()})")[1],
                lambda: (self.feat("str_concat"), f"({self.str_lit()} + {v()})")[1],
                lambda: (self.feat("str_concat"), f"({v()} + {v()})")[1],
                lambda: (self.feat("str_concat"), f"({v()} + str({self.e_int(depth - 1)}))")[1],
            ]
        elif self.p.on("str_lit_plus_lit"):
            opts.append(lambda: f"({self.str_lit()} + {self.str_lit()})")
        opts += [
            lambda: (self.feat("str_of_int"), f"str({self.e_int(depth - 1)})")[1],
            lambda: self.fstring(depth - 1),
            lambda: self.fstring(depth - 1),
        ]
        hs = [h for h in self.helpers if h[2] == "str" and h[0] != self.in_func]
        if hs and not self.no_calls:
            opts += [lambda: self.call(self.choice(hs), depth - 1)]
        return self.choice(opts)()

    def fstring(self, depth):
        self.feat("fstring")
        parts = []
        for _ in range(self.d(st.integers(1, 3))):
            if self.chance(0.5):
                lit = self.d(st.text(alphabet="abcxyz =:,.-" + ("#%'\\\"" if self.p.hostile_strings else ""), max_size=5))
                parts.append(lit.replace("\\", "\\\\").replace('"', '\\"').replace("{", "").replace("}", ""))
            elif parts and parts[-1].endswith("}"):
                parts.append("|")   # two interpolated numbers never touch: "12.25" + "38.44" would read as other numbers
            t = self.choice(["int", "int", "float", "str"])
            if t == "str":
                nm = self.names("str")
                if not nm:
                    t = "int"
                else:
                    parts.append("{" + self.choice(nm) + "}")
                    continue
            if t == "float":
                self.feat("fstring_float")
            inner = self.expr(t, min(depth, 1))
            if '"' in inner or "'" in inner or "\\" in inner:
                inner = self.int_lit()
            parts.append("{" + inner + "}")
        return 'f"' + "".join(parts) + '"'

    def macro(self, build):
        """abs/min/max are macros on the device: keep effectful helper calls out of their arguments while that finding is open."""
        if self.p.on("macro_effectful_arg"):
            return build()
        self.no_calls += 1
        try:
            return build()
        finally:
            self.no_calls -= 1

    def call(self, h, depth):
        name, ptypes, _ = h
        self.feat("helper_call")
        if self.p.on("call_arg_order") or len(ptypes) < 2:
            return f"{name}(" + ", ".join(self.expr(t, min(depth, 1)) for t in ptypes) + ")"
        # C++ leaves the order of argument evaluation open: while that finding is open at most one argument may have an effect
        hot = self.d(st.integers(0, len(ptypes) - 1))
        args = []
        for i, t in enumerate(ptypes):
            if i != hot:
                self.no_calls += 1
            try:
                args.append(self.expr(t, min(depth, 1)))
            finally:
                if i != hot:
                    self.no_calls -= 1
        return f"{name}(" + ", ".join(args) + ")"

    def any_expr(self, depth=None):
        t = self.choice(["int", "int", "float", "bool", "str", "str"])
        return t, self.expr(t, depth)

    # ---------------------------------------------------------------- statements
    def block(self, depth, loop_depth, in_main, budget):
        n = self.d(st.integers(1, max(1, min(self.p.max_stmts, budget))))
        out = []
        for _ in range(n):
            out.extend(self.stmt(depth, loop_depth, in_main))
        return out or [("s", "pass")]

    def stmt(self, depth, loop_depth, in_main):
        kinds = ["assign"] * 4 + ["write"] * 5 + ["aug"] * 4 + ["sleep", "swap", "tuple", "tuple_dep", "pin", "led", "comment", "passs", "callstmt"]
        if depth < self.p.max_depth:
            kinds += ["if"] * 3 + ["for"] * 2 + ["while"] * 2
        if loop_depth > 0:
            kinds += ["break_if", "continue_if"]
        for k, w in {**self.p.weights, **self.extra_weights}.items():
            kinds += [k] * w
        k = self.choice(kinds)
        return getattr(self, "s_" + k)(depth, loop_depth, in_main)

    def s_assign(self, depth, loop_depth, in_main):
        t = self.choice(["int", "int", "float", "bool", "str"])
        nm = self.names(t, writable=True)
        if not nm:
            return self.s_write(depth, loop_depth, in_main)
        return [("s", f"{self.choice(nm)} = {self.expr(t)}")]

    def s_aug(self, depth, loop_depth, in_main):
        t = self.choice(["int", "int", "float", "str"])
        nm = self.names(t, writable=True)
        if not nm:
            return self.s_write(depth, loop_depth, in_main)
        self.feat("augassign")
        n = self.choice(nm)
        if t == "int":
            ops = ["+=", "-=", "*="]
            if self.p.on("floordiv_mod_neg"):
                ops += ["//=", "%=", "//=", "%="]
            if self.p.on("aug_bitops"):
                ops += ["&=", "|=", "^="]
            op = self.choice(ops)
            if op in ("//=", "%="):
                # the augmented forms of the signed division classes: literal (either sign) or run-time non-zero divisor
                self.feat("aug_floordiv_mod")
                rhs = self.choice([str(v) for v in (-7, -3, -2, 2, 3, 5, 9)] + [f"(abs({self.e_int(0)}) % 5 + 2)"])
            elif op in ("&=", "|=", "^="):
                self.feat("aug_bitop")
                rhs = self.int_lit(0, 15)
            else:
                rhs = self.choice(["2", "2", "3", "0", "1", "2"]) if op == "*=" else self.e_int(1)
        elif t == "float":
            ops = ["+=", "-=", "*="]
            if self.p.on("floordiv_mod_neg"):
                ops += ["/=", "//=", "%="]
            op = self.choice(ops)
            if op == "/=":
                self.feat("aug_float_div")
                rhs = self.choice(["2.0", "4.0", "-2.0", "2", "-4"])
            elif op in ("//=", "%="):
                self.feat("aug_float_floordiv_mod")
                rhs = self.choice(["2.0", "0.5", "-2.0", "4", "-1.5", "3"])
            else:
                rhs = self.choice(["0.5", "2.0", "0.25"]) if op == "*=" else self.e_float(1)
        else:
            op, rhs = "+=", self.choice([self.str_lit(), f"str({self.e_int(1)})"])
        if op in ("//=", "%=", "/=") and self.d(st.integers(0, 1)):
            # operand driven below zero first, result observed right after: the signed cases of the augmented forms
            self.feat("aug_signed_observed")
            step = "7.5" if t == "float" else self.int_lit(5, 40)
            return [("s", f"{n} -= {step}"), ("s", f"{n} {op} {rhs}"), ("s", f"mon.write({n})")]
        if self.d(st.integers(0, 1)):
            return [("s", f"{n} {op} {rhs}"), ("s", f"mon.write({n})")]   # the new value is observed at once
        return [("s", f"{n} {op} {rhs}")]

    def s_swap(self, depth, loop_depth, in_main):
        t = self.choice(["int", "float", "str"])
        nm = self.names(t, writable=True)
        if len(nm) < 2:
            return self.s_write(depth, loop_depth, in_main)
        a = self.choice(nm)
        b = self.choice([x for x in nm if x != a])
        self.feat("swap")
        return [("s", f"{a}, {b} = {b}, {a}")]

    def s_tuple(self, depth, loop_depth, in_main):
        t1, t2 = self.choice(["int", "float", "str"]), self.choice(["int", "float", "bool"])
        n1, n2 = self.names(t1, writable=True), self.names(t2, writable=True)
        if not n1 or not n2:
            return self.s_write(depth, loop_depth, in_main)
        a, b = self.choice(n1), self.choice(n2)
        if a == b:
            return self.s_write(depth, loop_depth, in_main)
        self.feat("tuple_assign")
        return [("s", f"{a}, {b} = {self.expr(t1, 2)}, {self.expr(t2, 2)}")]

    def s_tuple_dep(self, depth, loop_depth, in_main):
        """tuple assignment whose right-hand elements read the targets at various expression depths (needs the temporaries)."""
        t = self.choice(["int", "int", "float"])
        nm = self.names(t, writable=True)
        if len(nm) < 2:
            return self.s_write(depth, loop_depth, in_main)
        a = self.choice(nm)
        b = self.choice([x for x in nm if x != a])
        k = self.int_lit(1, 3) if t == "int" else self.choice(["0.5", "2.0"])
        forms = [f"{a}, {b} = {b}, (({a} + {b}) + {k})", f"{a}, {b} = {b}, (({a} * {k}) - {b})", f"{a}, {b} = (({a} + {b}) * {k}), {a}",
                 f"{a}, {b} = ({b} - ({a} + {k})), ({a} + ({b} + {k}))", f"{a}, {b} = {b}, (-({a} + {k}))"]
        if t == "int":
            forms.append(f"{a}, {b} = {b}, ({a} if ({a} + {k}) > {b} else ({b} - {a}))")
        rest = [x for x in nm if x not in (a, b)]
        if rest:
            c = self.choice(rest)
            forms.append(f"{a}, {b}, {c} = {b}, {c}, ({a} + ({b} * {k}))")
        self.feat("tuple_dependent")
        return [("s", self.choice(forms)), ("s", f"mon.write({a})"), ("s", f"mon.write({b})")]

    def s_write(self, depth, loop_depth, in_main):
        _, e = self.any_expr()
        return [("s", f"mon.write({e})")]

    def s_mlist(self, depth, loop_depth, in_main):
        """run-time mutation of the int list m0: append (small alphabet -> duplicates; own elements), remove of a present value
        (by element, so Python never raises), order-sensitive reads and full dumps; every index is guarded by len()."""
        if "m0" not in self.vars or self.in_func:
            return self.s_write(depth, loop_depth, in_main)
        self.feat("list_mutation")
        k = self.choice(["append", "append", "append_own", "remove", "remove", "read", "dump", "len", "rotate", "rotate"])
        if k == "rotate":
            # duplicate the first element at the end, then remove by that value: Python removes the *first* occurrence; dump shows which one went
            v = f"q{len(self.loop_vars)}"
            return [("b", "if len(m0) > 0:", [("s", "m0.append(m0[0])")]), ("b", "if len(m0) > 1:", [("s", "m0.remove(m0[-1])")]),
                    ("b", f"for {v} in range(len(m0)):", [("s", f"mon.write(m0[{v}])")])]
        if k == "append":
            v = self.int_lit(1, 3) if self.chance(0.7) else self.e_int(1)
            return [("s", f"m0.append({v})")]
        i = self.d(st.integers(-3, 2))
        need = i if i >= 0 else -i - 1
        if k == "append_own":
            return [("b", f"if len(m0) > {need}:", [("s", f"m0.append(m0[{i}])")])]
        if k == "remove":
            return [("b", f"if len(m0) > {max(need, 1)}:", [("s", f"m0.remove(m0[{i}])")])]
        if k == "read":
            return [("b", f"if len(m0) > {need}:", [("s", f"mon.write(m0[{i}])")])]
        if k == "len":
            return [("s", "mon.write(len(m0))")]
        v = f"q{len(self.loop_vars)}"
        return [("b", f"for {v} in range(len(m0)):", [("s", f"mon.write(m0[{v}])")])]

    def s_sleep(self, depth, loop_depth, in_main):
        self.feat("sleep")
        e = self.choice([self.int_lit(0, 30), self.macro(lambda: f"(abs({self.e_int(1)}) % 20)"), self.choice(["2.5", "0.5", "10.75", "0"])])
        return [("s", f"sleep({e})")]

    def s_pin(self, depth, loop_depth, in_main):
        k = self.choice(["dw", "aw", "dr", "ar"])
        self.feat("core_pin")
        if k == "dw":
            return [("s", f"digital_write({self.choice([2, 3, 4])}, {self.choice(['1', '0', 'True', 'False', self.e_bool(1)])})")]
        if k == "aw":
            return [("s", f"analog_write({self.choice([5, 6])}, " + self.macro(lambda: f"(abs({self.e_int(1)}) % 256))"))]
        nm = self.names("int", writable=True)
        if not nm:
            return self.s_write(depth, loop_depth, in_main)
        if k == "dr":
            return [("s", f"{self.choice(nm)} = digital_read({self.choice([8, 9])})")]
        return [("s", f"{self.choice(nm)} = analog_read({self.choice(['\"A0\"', '\"A1\"'])})")]

    def s_led(self, depth, loop_depth, in_main):
        self.feat("led")
        return [("s", f"led.{self.choice(['on', 'off', 'toggle'])}()")]

    def s_comment(self, depth, loop_depth, in_main):
        # a comment line may sit at any column: the block's, column 0 ("#<0>"), one level out ("#<->") or deeper ("#<+>"); render() places it
        where = self.choice(["", "", "#<0>", "#<->", "#<+>"])
        if where:
            self.feat("comment_off_column")
        return [("s", (where or "#") + " " + self.d(st.text(alphabet="abc xyz:()#", max_size=10)))] + self.s_write(depth, loop_depth, in_main)

    def s_passs(self, depth, loop_depth, in_main):
        return [("s", self.choice(["pass", f"print({self.int_lit()})"]))]

    def s_callstmt(self, depth, loop_depth, in_main):
        hs = [h for h in self.helpers if h[0] != self.in_func]
        if not hs:
            return self.s_write(depth, loop_depth, in_main)
        h = self.choice(hs)
        c = self.call(h, 1)
        if h[2] is None:
            return [("s", c)]
        nm = self.names(h[2], writable=True)
        if nm and self.chance(0.7):
            return [("s", f"{self.choice(nm)} = {c}")]
        return [("s", f"mon.write({c})")]

    def arm(self, depth, loop_depth, in_main, budget):
        """body of one branch; sometimes empty on the device (pass / host-only print): the condition still has to be honoured"""
        if self.chance(0.1):
            self.feat("empty_arm")
            return [("s", self.choice(["pass", "print(0)"]))]
        return self.block(depth + 1, loop_depth, in_main, budget)

    def s_if(self, depth, loop_depth, in_main):
        self.feat("if")
        out = [("b", f"if {self.e_bool(2)}:", self.arm(depth, loop_depth, in_main, 4))]
        for _ in range(self.d(st.integers(0, 2))):
            self.feat("elif")
            out.append(("b", f"elif {self.e_bool(2)}:", self.arm(depth, loop_depth, in_main, 3)))
        if self.chance(0.5):
            self.feat("else")
            out.append(("b", "else:", self.arm(depth, loop_depth, in_main, 3)))
        return out

    def s_for(self, depth, loop_depth, in_main):
        self.feat("for")
        v = f"k{len(self.loop_vars)}"
        frozen = None
        nm = self.names("int")
        if self.p.on("for_bound_mutated"):
            cnt = self.choice([self.int_lit(0, 4), self.macro(lambda: f"(abs({self.e_int(1)}) % 4)")])
        elif nm and self.chance(0.5):
            frozen = self.choice(nm)
            cnt = f"(abs({frozen}) % 4)"
        else:
            cnt = self.int_lit(0, 4)
        was_const = frozen in self.readonly
        if frozen:
            self.readonly.add(frozen)
        self.loop_vars.append(v)
        self.vars[v] = "int"
        body = self.block(depth + 1, loop_depth + 1, in_main, 4)
        self.loop_vars.pop()
        del self.vars[v]
        if frozen and not was_const:
            self.readonly.discard(frozen)
        return [("b", f"for {v} in range({cnt}):", body)]

    def s_while(self, depth, loop_depth, in_main):
        self.feat("while")
        fuel = [n for n in self.names("int", writable=True) if n.startswith("w")]
        if not fuel:
            return self.s_write(depth, loop_depth, in_main)
        w = self.choice(fuel)
        self.readonly.add(w)  # body must not touch the fuel except the leading decrement
        cond = f"{w} > 0" if self.chance(0.5) else f"({w} > 0 and {self.e_bool(1)})"
        body = [("s", f"{w} = {w} - 1")] + self.block(depth + 1, loop_depth + 1, in_main, 4)
        self.readonly.discard(w)
        return [("s", f"{w} = {self.int_lit(0, 4)}"), ("b", f"while {cond}:", body)]

    def s_break_if(self, depth, loop_depth, in_main):
        if in_main and loop_depth <= 1:
            return self.s_write(depth, loop_depth, in_main)
        self.feat("break")
        return [("b", f"if {self.e_bool(1)}:", [("s", "break")])]

    def s_continue_if(self, depth, loop_depth, in_main):
        self.feat("continue")
        if not self.p.on("continue"):
            return self.s_write(depth, loop_depth, in_main)
        return [("b", f"if {self.e_bool(1)}:", [("s", f"mon.write({self.int_lit()})"), ("s", "continue")])]

    # ---------------------------------------------------------------- devices
    DEV_DECL = {
        "rgb": lambda g: f"RGBLed({g.choice(['9, 10, 11', '3, 5, 6'])})",
        "srv": lambda g: g.choice(["Servo(6)", "Servo(7, min_angle=10, max_angle=170)", "Servo(pin=6, min_pulse_us=600, max_pulse_us=2300)"]),
        "mot": lambda g: "DCMotor(2, 4, 3)",
        "bz": lambda g: g.choice(["Buzzer(8)", "Buzzer(8, default_frequency=523.0)"]),
        "btn": lambda g: "Button(10)",
        "pot": lambda g: g.choice(["Potentiometer('A2')", "Potentiometer(\"A3\")"]),
        "us": lambda g: g.choice(["Ultrasonic(7, 8)", "Ultrasonic(7, 8, sensor='HC-SR04')"]),
        "lcd": lambda g: g.choice(["LCD(rs=12, en=11, d4=5, d5=4, d6=3, d7=2)", "LCD(rs=12, en=11, d4=5, d5=4, d6=3, d7=2, cols=20, rows=4, backlight_pin=10)",
                                   "LCD(rs=12, en=11, d4=5, d5=4, d6=3, d7=2, rw=13, cols=8, rows=1)"]),
        "lci": lambda g: g.choice(["LCD(i2c_addr=0x27)", "LCD(i2c_addr=39, cols=20, rows=4)"]),
    }
    HOISTABLE = {"rgb", "srv", "mot", "btn", "pot", "us"}

    def declare_devices(self):
        lines = []
        kinds = [k for k in self.DEV_DECL if self.chance(0.45)]
        for k in kinds:
            decl = f"{k} = {self.DEV_DECL[k](self)}"
            m_ = _re.search(r"\((\d+(?:, \d+)*)", decl)
            if m_ and k not in ("lcd", "lci") and self.chance(0.25):
                # pins given by named constants (never re-assigned) instead of literals
                self.feat("device_pins_by_name")
                names_ = []
                for j_, num in enumerate(m_.group(1).split(", ")):
                    nm_ = f"PIN_{k.upper()}{j_}"
                    lines.append(("s", f"{nm_} = {num}"))
                    names_.append(nm_)
                decl = decl[:m_.start(1)] + ", ".join(names_) + decl[m_.end(1):]
            self.devs[k] = k
            if k in self.HOISTABLE and self.chance(self.p.loop_decl):
                self.loop_devs.append(decl)
                self.loop_only.add(k)
                self.feat("device_declared_in_loop")
            else:
                lines.append(("s", decl))
            self.feat("device:" + k)
        return lines

    def has(self, k):
        return k in self.devs and (self.in_main_now or k not in self.loop_only)

    def dev_getter(self, t):
        """Expression of type t reading device state, or None."""
        c = []
        if t == "int":
            if self.has("btn"): c.append("btn.is_pressed()")
            if self.has("pot"): c.append("pot.read()")
            c.append("led.get_brightness()")
            if self.has("mot"): c.append("mot.is_inverted()")
        elif t == "float":
            if self.has("srv"): c += ["srv.read()", "srv.read_us()"]
            if self.has("mot"): c += ["mot.get_speed()", "mot.get_applied_speed()"]
            if self.has("us"): c.append("us.measure_distance()")
            if self.has("bz"): c += ["bz.get_frequency()", "bz.get_last_frequency()"]
        elif t == "bool":
            c.append("led.get_state()")
            if self.has("bz"): c.append("bz.get_state()")
        elif t == "str":
            if self.has("mot"): c.append("mot.get_mode()")
        if not c:
            return None
        self.feat("device_getter")
        return self.choice(c)

    def s_device(self, depth, loop_depth, in_main):
        ks = [k for k in self.devs if self.has(k) and not (self.in_func and k in ("lcd", "lci") and not self.p.on("helper_uses_late_helpers"))] + ["led"]
        k = self.choice(ks)
        i = lambda d=1: self.e_int(d)
        f = lambda d=1: self.e_float(d)
        b = lambda: self.choice(["True", "False", self.e_bool(1)])
        txt = lambda: self.e_str(1)
        # small counts / waits: mostly literals, sometimes a run-time expression (several of them may meet in one call)
        rt = lambda: self.macro(lambda: f"(abs({self.choice(self.names('int') or ['3'])}) % 4)")
        small = lambda: self.int_lit(0, 5) if self.chance(0.6) else rt()
        calls = {
            "led": ["on()", "off()", "toggle()", f"set_brightness({i()})", f"blink({small()}, {small()})", f"blink(duration_ms={i()})", f"fade_in({i()}, {small()})",
                    f"fade_out(step={small()}, delay_ms={small()})", f"blink({rt()}, {rt()})", f"fade_in({rt()} + 60, {rt()})", f"flash_pattern([1, 0, {self.int_lit(0, 255)}], {small()})", "flash_pattern([])"],
            "rgb": [f"set_color({i()}, {i()}, {i()})", f"on({i()}, {i()}, {i()})", "on()", "off()", f"fade({i()}, {i()}, {i()}, {small()}, {small()})",
                    f"blink({i()}, {i()}, {i()}, times={small()}, delay_ms={small()})", f"on(green={i()})"],
            "srv": [f"write({i()})", f"write({f()})", f"write_us({i()})", f"write_us(pulse={f()})"],
            "mot": [f"set_speed({f()})", f"backward({f()})", "backward()", "stop()", "coast()", "invert()", f"ramp({f()}, {small()})", f"run_for({small()}, {f()})", f"ramp(target_speed={f()}, duration_ms={i()})"],
            "bz": [f"play_tone({i()})", f"play_tone({f()}, {small()})", "stop()", f"beep({i()}, on_ms={small()}, off_ms={small()}, times={small()})", "beep()",
                   f"sweep({i()}, {i()}, duration_ms={small()}, steps={small()})", f"melody({self.choice(['success', 'error', 'startup', 'notify', 'alarm', 'scale_c', 'siren'])!r})",
                   f"melody('siren', tempo={i()})", f"beep(on_ms={rt()}, off_ms={rt()}, times={rt()})", f"sweep({i()}, {i()}, duration_ms={rt()}, steps={rt()})", f"play_tone({i()}, {rt()})"],
            "btn": [], "pot": [], "us": [],
            "lcd": None, "lci": None,
        }
        lcd_calls = [f"write({small()}, 0, {txt()})", f"line(0, {txt()})", f"line(0, {txt()}, align='center', clear_row=False)", f"message({txt()}, {txt()})", f"message({txt()})", "clear()",
                     f"display({b()})", f"backlight({b()})", f"brightness({i()})", f"glyph({self.int_lit(0, 7)}, [1, 2, 4, 8, 16, 31, 0, 21])",
                     f"progress(0, {i()}, 100)", f"progress(0, {i()}, {self.int_lit(1, 200)}, style={self.choice(['block', 'hash', 'pipe', 'dot'])!r})",
                     f"progress(0, {i()}, 50, width={self.int_lit(1, 20)})", f"progress(0, {i()}, {self.int_lit(1, 200)}, width={self.int_lit(1, 20)}, style={self.choice(['block', 'hash', 'pipe', 'dot'])!r}, label={txt()})",
                     f"animate({self.choice(['scroll', 'blink', 'typewriter', 'bounce'])!r}, 0, {txt()}, speed_ms={small()}, loop={self.choice(['True', 'False'])})"]
        opts = calls.get(k)
        if opts is None and self.chance(0.15):
            # the same glyph bitmap uploaded twice from different C++ scopes (block then after it, or before a block then inside it)
            self.feat("device_call:" + k)
            self.feat("glyph_two_scopes")
            bm = self.choice(["[1, 2, 4, 8, 16, 31, 0, 21]", "[0, 10, 31, 31, 14, 4, 0, 0]"])
            g1, g2 = f"{k}.glyph({self.int_lit(0, 7)}, {bm})", f"{k}.glyph({self.int_lit(0, 7)}, {bm})"
            form = self.choice(["block_then_after", "before_then_block", "two_blocks"])
            cond = f"if {self.e_bool(1)}:"
            if form == "block_then_after":
                return [("b", cond, [("s", g1)]), ("s", g2)]
            if form == "before_then_block":
                return [("s", g1), ("b", cond, [("s", g2), ("s", f"{k}.write(0, 0, 'g')")])]
            return [("b", cond, [("s", g1)]), ("b", f"if {self.e_bool(1)}:", [("s", g2)])]
        if opts is None:
            opts = lcd_calls
        if not opts:
            g = self.dev_getter(self.choice(["int", "float"]))
            return [("s", f"mon.write({g})")] if g else self.s_write(depth, loop_depth, in_main)
        self.feat("device_call:" + k)
        return [("s", f"{k}.{self.choice(opts)}")]

    def late_decls(self):
        """names first assigned in the prologue *after* other statements ran (single and all-new tuple targets): their value is the
        value of the right-hand side at that point of the run, not at start-up."""
        out = []
        for i in range(self.d(st.integers(0, 2))):
            self.feat("late_first_assign")
            if self.chance(0.5):
                t = self.choice(["int", "int", "float", "str"])
                n = f"n{i}"
                out.append(("s", f"{n} = {self.expr(t, 2)}"))
                self.vars[n] = t
                out.append(("s", f"mon.write({n})"))
            else:
                t1, t2 = self.choice(["int", "float"]), self.choice(["int", "int", "float"])
                a, b = f"n{i}", f"r{i}"
                out.append(("s", f"{a}, {b} = {self.expr(t1, 2)}, {self.expr(t2, 2)}"))
                self.vars[a], self.vars[b] = t1, t2
                out += [("s", f"mon.write({a})"), ("s", f"mon.write({b})")]
            if self.chance(0.5):
                out.extend(self.stmt(0, 0, False))
        return out

    # ---------------------------------------------------------------- helpers (functions)
    def helper(self, idx):
        name = f"h{idx}" if self.chance(0.8) else f"{self.choice(KEYWORDISH_HELPERS)}{idx}"
        ptypes = [self.choice(["int", "int", "float", "str", "bool"]) for _ in range(self.d(st.integers(0, 3)))]
        ret = self.choice(["int", "int", "float", "str", "bool", None])
        saved_vars, saved_const, saved_cset = dict(self.vars), set(self.readonly), set(self.const)
        params = [f"p{idx}{chr(97 + i)}" for i in range(len(ptypes))]
        # a parameter / local may carry the name of a top-level variable: inside the helper it is the helper's own name
        plain = sorted(n for n, ty in saved_vars.items() if ty in ("int", "float", "str", "bool") and n[0] in "ifsbc")
        shadowed = set()

        def shadow_name(default):
            free = [n for n in plain if n not in shadowed]
            if free and self.chance(0.25):
                n = self.choice(free)
                shadowed.add(n)
                self.feat("shadowed_global")
                return n
            return default

        params = [shadow_name(p) for p in params]
        for p, t in zip(params, ptypes):
            self.vars[p] = t
        # globals are readable but never written inside helpers (keeps `global` out of the picture)
        self.readonly |= set(saved_vars)
        self.in_func = name
        body = []
        locs = []
        nloc = self.d(st.integers(0, 2))
        lnames = [shadow_name(f"q{idx}{chr(97 + i)}") for i in range(nloc)]
        for ln in lnames:
            self.vars.pop(ln, None)  # a Python local cannot be read before its first assignment in the helper
        for i in range(nloc):
            t = self.choice(["int", "float", "str"])
            ln = lnames[i]
            if self.chance(0.3):
                # first bound inside both arms of a branch: still a local of the helper, declared once with the arms' type
                self.feat("helper_local_bound_in_branch")
                body += [("b", f"if {self.e_bool(1)}:", [("s", f"{ln} = {self.expr(t, 1)}")]), ("b", "else:", [("s", f"{ln} = {self.expr(t, 1)}")])]
            else:
                body.append(("s", f"{ln} = {self.expr(t, 2)}"))
            self.vars[ln] = t
            locs.append(ln)
        self.readonly -= shadowed
        self.const -= shadowed
        for _ in range(self.d(st.integers(0, 3))):
            body.extend(self.stmt(1, 0, False))
        if ret is not None:
            if self.chance(0.4):
                self.feat("early_return")
                body.append(("b", f"if {self.e_bool(1)}:", [("s", f"return {self.expr(ret, 2)}")]))
            body.append(("s", f"return {self.expr(ret, 2)}"))
        elif self.chance(0.3):
            body.append(("b", f"if {self.e_bool(1)}:", [("s", "return")]))
            body.append(("s", f"mon.write({self.int_lit()})"))
        if not body:
            body = [("s", f"mon.write({self.int_lit()})")]
        self.in_func = None
        self.vars, self.readonly, self.const = saved_vars, saved_const, saved_cset
        self.helpers.append((name, ptypes, ret))
        self.feat("helper_def")
        ann = {"int": "int", "float": "float", "str": "str", "bool": "bool"}
        if self.p.on("unannotated_param"):
            sig = ", ".join(params)
        else:
            sig = ", ".join(p if t == "int" and self.chance(0.5) else f"{p}: {ann[t]}" for p, t in zip(params, ptypes))
        return ("b", f"def {name}({sig}):", body)

    # ---------------------------------------------------------------- program
    def program(self):
        nodes = [("s", ln) for ln in HEADER.strip().split("\n")]
        nodes.append(("s", "mon = SerialMonitor(9600)"))
        nodes.append(("s", f"led = Led({self.choice([13, 12, 11])})"))
        decls = []
        def const_int():
            # declarations initialised by constant arithmetic (also with the operators that need run-time helpers when they are not folded)
            if self.chance(0.7):
                return self.int_lit()
            a, b = self.int_lit(0, 300), self.int_lit(1, 9)
            self.feat("const_expr_decl")
            return self.choice([f"({a} // {b})", f"({a} % {b})", f"({b} ** {self.int_lit(0, 3)})", f"({a} + {b} * 2)", f"(-{a} // {b})", f"({a} // {b} % 7)", f"abs({b} - {a})"])

        for i in range(self.d(st.integers(1, 3))):
            decls.append((f"i{i}", "int", const_int()))
        for i in range(2):
            decls.append((f"w{i}", "int", "0"))
        for i in range(self.d(st.integers(0, 2))):
            decls.append((f"f{i}", "float", self.float_lit()))
        for i in range(self.d(st.integers(0, 2))):
            decls.append((f"s{i}", "str", self.str_lit()))
        for i in range(self.d(st.integers(0, 1))):
            decls.append((f"b{i}", "bool", self.choice(["True", "False"])))
        if self.chance(0.5):
            decls.append(("c0", "str", self.str_lit()))
            self.const.add("c0")
        # identifiers that merely *begin* like a keyword / statement word the line-based parser dispatches on
        for n in self.d(st.lists(st.sampled_from(KEYWORDISH), max_size=2, unique=True)):
            t = "float" if n.endswith("_f") else "int"
            decls.append((n, t, self.float_lit() if t == "float" else self.int_lit()))
            self.feat("keywordish_name")
        for n, t, v in decls:
            self.vars[n] = t
            nodes.append(("s", f"{n} = {v}"))
        if self.chance(0.4):
            # names first assigned inside a *top-level* compound statement (hoisted to globals), then used like any other variable
            form = self.choice(["ifelse", "for", "while", "if_elif_else"])
            v1, v2 = self.int_lit(), self.int_lit()
            cond = self.choice(["i0 >= 0", "i0 < 0", "True", "1 > 2"])
            if form == "ifelse":
                nodes += [("b", f"if {cond}:", [("s", f"g0 = {v1}")]), ("b", "else:", [("s", f"g0 = {v2}")])]
            elif form == "if_elif_else":
                nodes += [("b", f"if {cond}:", [("s", f"g0 = {v1}")]), ("b", "elif i0 > 100:", [("s", f"g0 = {v2}")]), ("b", "else:", [("s", "g0 = 7")])]
            elif form == "for":
                nodes += [("b", "for k9 in range(2):", [("s", f"g0 = k9 + {v1}")])]
            else:
                nodes += [("s", "w0 = 1"), ("b", "while w0 > 0:", [("s", "w0 = w0 - 1"), ("s", f"g0 = {v1}")])]
            self.vars["g0"] = "int"
            self.feat("toplevel_block_first_assign")
        if self.chance(0.6):
            ln = self.d(st.integers(1, 4))
            t = self.choice(["list_int", "list_int", "list_float"])
            name = "l0"
            elems = [self.int_lit() if t == "list_int" else self.float_lit() for _ in range(ln)]
            nodes.append(("s", f"{name} = [{', '.join(elems)}]"))
            self.vars[name] = t
            self.list_len[name] = ln
            self.const.add(name)
            self.feat("list_literal")
        if self.chance(0.55):
            ln = self.d(st.integers(1, 4))
            nodes.append(("s", f"m0 = [{', '.join(self.int_lit(1, 3) for _ in range(ln))}]"))
            self.vars["m0"] = "list_int_mut"
            self.extra_weights["mlist"] = 5
        if self.chance(0.3):
            self.feat("list_comp")
            a = self.d(st.integers(0, 3)); b = self.d(st.integers(a + 1, a + 4))
            nodes.append(("s", f"l1 = [(j * 2 + 1) for j in range({a}, {b})]"))
            self.vars["l1"] = "list_int"
            self.list_len["l1"] = b - a
            self.const.add("l1")
        if self.chance(self.p.devices):
            nodes = [("s", ln) for ln in DEVICE_HEADER.strip().split("\n")] + nodes
            dev_nodes = self.declare_devices()
            nodes.extend(dev_nodes)
            self.extra_weights["device"] = 6
        if "btn" in self.devs and self.chance(0.5) and False:
            pass
        for i in range(self.d(st.integers(0, self.p.helpers))):
            nodes.append(self.helper(i))
        nodes.extend(self.block(0, 0, False, 8))
        nodes.extend(self.late_decls())
        has_main = self.chance(self.p.main_loop)
        if has_main:
            self.feat("main_loop")
            self.in_main_now = True
            nodes.append(("b", "while True:", [("s", d) for d in self.loop_devs] + self.block(1, 1, True, 8)))
            self.in_main_now = False
        elif self.loop_devs:
            nodes.append(("b", "while True:", [("s", d) for d in self.loop_devs] + [("s", "mon.write(0)")]))
        return nodes


def render(nodes, indent="", unit="    "):
    out = []
    for n in nodes:
        if n[0] == "s" and n[1][:4] in ("#<0>", "#<->", "#<+>"):
            col = {"#<0>": "", "#<->": indent[: max(0, len(indent) - len(unit))], "#<+>": indent + unit}[n[1][:4]]
            out.append(col + "#" + n[1][4:])
        elif n[0] == "s":
            out.append(indent + n[1])
        else:
            out.append(indent + n[1])
            out.extend(render(n[2], indent + unit, unit).split("\n")[:-1] if n[2] else [indent + unit + "pass"])
    return "\n".join(out) + "\n"


def lines_to_nodes(lines, unit=4):
    """Inverse of render() for scripts written with a fixed indent unit (scenario generators build line lists)."""
    def build(i, depth):
        out = []
        while i < len(lines):
            ln = lines[i]
            if not ln.strip():
                i += 1
                continue
            ind = (len(ln) - len(ln.lstrip(" "))) // unit
            if ind < depth:
                break
            text = ln.strip()
            if text.endswith(":") and i + 1 < len(lines) and (len(lines[i + 1]) - len(lines[i + 1].lstrip(" "))) // unit > ind:
                body, i = build(i + 1, ind + 1)
                out.append(("b", text, body))
            else:
                out.append(("s", text))
                i += 1
        return out, i

    return build(0, 0)[0]


def program_strategy(profile: Profile):
    @st.composite
    def build(draw):
        g = Gen(draw, profile)
        nodes = g.program()
        return {"nodes": nodes, "features": sorted(g.features)}

    return build()


def count_nodes(nodes):
    return sum(1 + (count_nodes(n[2]) if n[0] == "b" else 0) for n in nodes)


import re as _re

_DECL = _re.compile(r"^(from |mon = |led = |PIN_[A-Z]+\d = |[iwfsbclmnr]\d = |[nr]\d, [nr]\d = |(?:" + "|".join(KEYWORDISH) + r") = )")


def is_decl(node):
    """Top-level declarations the shrinker must keep (deleting one would move the program into an excluded class)."""
    return node[0] == "s" and bool(_DECL.match(node[1]))
