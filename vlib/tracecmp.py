"""Observation normalisation and comparison between the firmware trace and the CPython reference events."""
from __future__ import annotations

import math
import re

NUM = re.compile(r"-?\d+(?:\.\d+)?(?:[eE][-+]?\d+)?|-?inf|nan")


def num_close(a: float, b: float, rel=1e-4) -> bool:
    if a == b:
        return True
    if math.isnan(a) or math.isnan(b):
        return math.isnan(a) and math.isnan(b)
    if math.isinf(a) or math.isinf(b):
        return False
    return abs(a - b) <= rel * max(1.0, abs(a), abs(b))


def text_equal(host: str, fw: str) -> bool:
    """Text segments exactly, numeric tokens numerically (float32 vs float64 rendering)."""
    if host == fw:
        return True
    hs, fs = NUM.split(host), NUM.split(fw)
    hn, fn = NUM.findall(host), NUM.findall(fw)
    if hs != fs or len(hn) != len(fn):
        return False
    for a, b in zip(hn, fn):
        try:
            fa, fb = float(a), float(b)
        except ValueError:
            return False
        # an integer token must stay the same integer
        if re.fullmatch(r"-?\d+", a) and re.fullmatch(r"-?\d+", b):
            if int(a) != int(b):
                return False
        elif not num_close(fa, fb):
            return False
    return True


def ser_equal(htype: str, hval, fw: str) -> bool:
    if htype == "str":
        return text_equal(str(hval).replace("\n", "\x1f"), fw)
    if htype == "bool":
        return fw.strip() in (("1", "true") if hval else ("0", "false")) or _num(fw) == (1.0 if hval else 0.0)
    if htype == "int":
        v = _num(fw)
        return v is not None and v == float(hval)
    if htype == "float":
        v = _num(fw)
        return v is not None and num_close(float(hval), v)
    return text_equal(str(hval), fw)


def _num(s):
    try:
        return float(s.strip())
    except ValueError:
        return None


def fw_obs(trace, motor_pins=()):
    """Firmware trace -> list of observations (t_ms, kind, ...)."""
    out = []
    just_attached = set()  # attach() is followed by one writeMicroseconds(min_pulse): configuration, not a command
    for t, k, a in trace.events:
        tm = t / 1000.0
        p = a.split()
        if k == "SERVO_ATTACH":
            just_attached.add(int(p[0]))
            continue
        if k == "SERVO_US" and int(p[0]) in just_attached:
            just_attached.discard(int(p[0]))
            continue
        if k == "==":
            out.append((tm, "MARK", a))
        elif k == "SER":
            out.append((tm, "SER", a))
        elif k == "DELAY":
            out.append((tm, "DELAY", int(p[0])))
        elif k == "DW":
            out.append((tm, "PIN", int(p[0]), 255 * int(p[1])))
        elif k == "AW":
            out.append((tm, "PIN", int(p[0]), int(p[1])))
        elif k == "DR":
            out.append((tm, "READ", "D", int(p[0]), int(p[1])))
        elif k == "AR":
            out.append((tm, "READ", "A", int(p[0]), int(p[1])))
        elif k == "PULSEIN":
            out.append((tm, "READ", "P", int(p[0]), int(p[2])))
        elif k == "SERVO_WRITE":
            out.append((tm, "SERVO", int(p[0]), "angle", int(p[1])))
        elif k == "SERVO_US":
            out.append((tm, "SERVO", int(p[0]), "pulse", int(p[1])))
        elif k == "SERIAL_BEGIN":
            out.append((tm, "SERIAL_BEGIN", int(p[0])))
        elif k == "SREAD":
            out.append((tm, "SREAD", a))
        elif k == "PINMODE":
            out.append((tm, "PINMODE", int(p[0]), int(p[1])))
        elif k in ("TONE", "NOTONE"):
            out.append((tm, k, *[int(x) for x in p[:2]]))
        elif k == "LCD_GLYPH":
            out.append((tm, "GLYPH", int(p[0]), int(p[1]), [int(x) for x in p[2:10]]))
    return out


def host_obs(events):
    out = []
    for e in events:
        t, k = e[0], e[1]
        if k == "MARK":
            out.append((t, "MARK", e[2]))
        elif k == "SER":
            out.append((t, "SER", e[2], e[3]))
        elif k == "DELAY":
            out.append((t, "DELAY", e[2]))
        elif k == "PIN":
            out.append((t, "PIN", e[2], e[3]))
        elif k == "READ":
            out.append((t, "READ", e[2], e[3], e[4]))
        elif k == "SERVO":
            out.append((t, "SERVO", e[2], e[3], e[4], e[5]))
        elif k == "SERIAL_BEGIN":
            out.append((t, "SERIAL_BEGIN", e[2]))
        elif k == "SREAD":
            out.append((t, "SREAD", e[2]))
        elif k == "PINMODE":
            out.append((t, "PINMODE", e[2], e[3]))
        elif k == "GLYPH":
            out.append((t, "GLYPH", e[2], e[3], list(e[4])))
        elif k == "MOTOR":
            pins, a, b, duty, exact = e[2], e[3], e[4], e[5], e[6]
            out.append((t, "PIN", pins[0], 255 * a))
            out.append((t, "PIN", pins[1], 255 * b))
            out.append((t, "PIN", pins[2], duty, exact))
    return out


def _collapse(obs, drop_pinmode=True, drop_reads=False, side="host"):
    """Drop pin writes that do not change the pin's level (signal semantics), PINMODE and firmware delay(0)."""
    level = {}
    res = []
    for o in obs:
        k = o[1]
        if k == "PIN":
            pin, lv = o[2], o[3]
            if level.get(pin, 0) == lv:  # pins idle LOW / duty 0 after reset: writing 0 first is not a signal change
                continue
            level[pin] = lv
            res.append(o)
        elif k == "DELAY":
            if side == "fw" and o[2] == 0:
                continue
            res.append(o)
        elif k == "PINMODE" and drop_pinmode:
            continue
        elif k == "READ" and drop_reads:
            continue
        elif k in ("TONE", "NOTONE"):
            continue
        else:
            res.append(o)
    return res


def _merge_delays(obs):
    """Adjacent waits (nothing observable between them) become one wait (t, 'DELAY', total, count): each of them may lose < 1 ms on the device."""
    out = []
    for o in obs:
        if o[1] == "DELAY" and out and out[-1][1] == "DELAY":
            p = out[-1]
            out[-1] = (p[0], "DELAY", p[2] + o[2], p[3] + 1)
        elif o[1] == "DELAY":
            out.append((o[0], "DELAY", o[2], 1))
        else:
            out.append(o)
    return out


def compare(host_events, trace, *, motor_duty_tol=1, ignore_initial_servo=True):
    """Return None if equivalent, else a short description of the first divergence.

    Delays: the device rounds every delay to whole milliseconds, so a host delay below 1 ms may have no counterpart
    on the device (delay(0) / skipped call); otherwise paired delays must agree to within 1 ms.  Event times must agree
    to within 1 ms per delay seen so far.
    """
    h = _merge_delays(_collapse(host_obs(host_events), side="host"))
    f = _merge_delays(_collapse(fw_obs(trace), side="fw"))
    i = j = 0
    delays = 0
    step = 0
    last_f = {}      # pin -> last firmware level matched
    last_hx = {}     # pin -> last exact host duty matched (motor enable pins)
    while i < len(h) and j < len(f):
        ho, fo = h[i], f[j]
        nh = ho[3] if ho[1] == "DELAY" else 0
        nf = fo[3] if fo[1] == "DELAY" else 0
        if ho[1] == "DELAY" and ho[2] < 1.0 * nh and (fo[1] != "DELAY" or abs(ho[2] - fo[2]) >= 1.0 * max(nh, nf)):
            # every wait of this run is below 1 ms: the device may have rounded all of them away
            delays += nh
            i += 1
            continue
        if fo[1] == "DELAY" and fo[2] <= 1 and ho[1] != "DELAY":
            # the device may round a sub-millisecond wait up to 1 ms where the host model skipped it entirely: not granted
            return f"event {step}: host {_fmt(ho)} vs firmware {_fmt(fo)}"
        # motor duty is compared to +-1 count, and both sides drop writes that repeat a level: a step that changes the integer duty on
        # one side only (236.4999 / 236.5001) is an extra event there, not a divergence
        if ho[1] == "PIN" and len(ho) > 4 and (fo[1] != "PIN" or fo[2] != ho[2]) and ho[2] in last_f and abs(ho[4] - last_f[ho[2]]) <= motor_duty_tol + 0.5:
            last_hx[ho[2]] = ho[4]
            i += 1
            continue
        if fo[1] == "PIN" and fo[2] in last_hx and (ho[1] != "PIN" or ho[2] != fo[2]) and abs(last_hx[fo[2]] - fo[3]) <= motor_duty_tol + 0.5:
            last_f[fo[2]] = fo[3]
            j += 1
            continue
        if ho[1] != fo[1]:
            return f"event {step}: host {_fmt(ho)} vs firmware {_fmt(fo)}"
        k = ho[1]
        ok = True
        if k == "MARK":
            ok = ho[2] == fo[2]
        elif k == "SER":
            ok = ser_equal(ho[2], ho[3], fo[2])
        elif k == "DELAY":
            delays += max(nh, nf)
            ok = abs(ho[2] - fo[2]) < 1.0 * max(nh, nf)
        elif k == "PIN":
            if len(ho) > 4:  # motor duty with tolerance
                ok = ho[2] == fo[2] and abs(ho[4] - fo[3]) <= motor_duty_tol + 0.5
                if ok:
                    last_hx[ho[2]] = ho[4]
            else:
                ok = ho[2] == fo[2] and ho[3] == fo[3]
            if ok:
                last_f[fo[2]] = fo[3]
        elif k == "READ":
            ok = tuple(ho[2:5]) == tuple(fo[2:5])
        elif k == "SERVO":
            if ho[2] != fo[2] or ho[3] != fo[3]:
                ok = False
            else:
                exact = ho[4] if ho[3] == "angle" else ho[5]
                want = math.floor(exact + 0.5)
                frac = exact + 0.5 - math.floor(exact + 0.5)
                ok = fo[4] == want or (min(frac, 1 - frac) < 1e-3 and abs(fo[4] - want) <= 1)
        elif k == "SERIAL_BEGIN":
            ok = ho[2] == fo[2]
        elif k == "SREAD":
            ok = ho[2] == fo[2]
        elif k == "GLYPH":
            ok = tuple(ho[2:4]) == tuple(fo[2:4]) and list(ho[4]) == list(fo[4])
        if not ok:
            return f"event {step}: host {_fmt(ho)} vs firmware {_fmt(fo)}"
        if abs(ho[0] - fo[0]) > 1.0 * delays + 1e-6 and k != "MARK":
            return f"event {step} time: host {ho[0]:.3f} ms vs firmware {fo[0]:.3f} ms after {delays} delays ({_fmt(ho)})"
        i += 1
        j += 1
        step += 1
    while i < len(h) and ((h[i][1] == "DELAY" and h[i][2] < 1.0 * h[i][3]) or
                          (h[i][1] == "PIN" and len(h[i]) > 4 and h[i][2] in last_f and abs(h[i][4] - last_f[h[i][2]]) <= motor_duty_tol + 0.5)):
        i += 1
    while j < len(f) and f[j][1] == "PIN" and f[j][2] in last_hx and abs(last_hx[f[j][2]] - f[j][3]) <= motor_duty_tol + 0.5:
        j += 1
    if i < len(h) or j < len(f):
        extra = h[i] if i < len(h) else f[j]
        side = "host" if i < len(h) else "firmware"
        return f"event {step}: only {side} has {_fmt(extra)} (host {len(h)} events, firmware {len(f)})"
    return None


def _fmt(o):
    return f"{o[1]}{tuple(o[2:])}@{o[0]:.1f}ms"
