"""Firmware pipeline: transpile -> compile against the mock Arduino core -> run with a tape -> parsed trace."""
from __future__ import annotations

import fcntl
import os
import re
import shutil
import subprocess
import tempfile

from vlib.runner import VERIF, HarnessError

MOCK = os.path.join(VERIF, "mock")
WORK = os.path.join(VERIF, ".work")
OUT = os.path.join(WORK, "mockbuild")
BASE_FLAGS = ["-std=gnu++11", "-fpermissive", "-fno-exceptions", "-fno-threadsafe-statics", "-w", "-O0"]
INC = [f"-I{OUT}/pch", f"-I{MOCK}", f"-I{MOCK}/libs"]
INC_NOPCH = [f"-I{MOCK}", f"-I{MOCK}/libs"]
ASAN_FLAGS = ["-DREDU_ASAN", "-fsanitize=address,undefined", "-fno-sanitize-recover=undefined", "-fno-omit-frame-pointer", "-g"]

_ready = False


def ensure_mock():
    global _ready
    if _ready:
        return
    os.makedirs(WORK, exist_ok=True)
    with open(os.path.join(WORK, ".mock.lock"), "w") as lk:
        fcntl.flock(lk, fcntl.LOCK_EX)
        r = subprocess.run(["sh", os.path.join(MOCK, "build.sh")], capture_output=True, text=True)
        if r.returncode != 0:
            raise HarnessError("mock build failed:\n" + r.stdout + r.stderr)
    _ready = True


def transpile(src: str) -> str:
    from Reduino.transpile.emitter import emit
    from Reduino.transpile.parser import parse

    return emit(parse(src))


class CompileError(Exception):
    pass


class Workdir:
    def __init__(self, tag="w"):
        os.makedirs(WORK, exist_ok=True)
        self.path = tempfile.mkdtemp(prefix=f"{tag}-{os.getpid()}-", dir=WORK)

    def __enter__(self):
        return self.path

    def __exit__(self, *a):
        shutil.rmtree(self.path, ignore_errors=True)


def syntax_check(cpp: str, wd: str, name="sketch"):
    """g++ -fsyntax-only; returns None or the compiler's error text."""
    ensure_mock()
    p = os.path.join(wd, name + ".cpp")
    with open(p, "w") as f:
        f.write(cpp)
    r = subprocess.run(["g++", *BASE_FLAGS, *INC, "-fsyntax-only", p], capture_output=True, text=True)
    if r.returncode != 0:
        return _errors(r.stderr)
    return None


def _errors(stderr: str) -> str:
    lines = [ln for ln in stderr.splitlines() if "error" in ln or "undefined reference" in ln]
    return "\n".join(lines[:6]) if lines else stderr[-800:]


def build(cpp: str, wd: str, asan=False, name="sketch") -> str:
    """Compile + link; returns the executable path or raises CompileError(text)."""
    ensure_mock()
    src = os.path.join(wd, name + ".cpp")
    exe = os.path.join(wd, name + (".asan" if asan else "") + ".exe")
    with open(src, "w") as f:
        f.write(cpp)
    if asan:
        cmd = ["clang++", *BASE_FLAGS, *ASAN_FLAGS, *INC_NOPCH, src, os.path.join(OUT, "runtime_asan.o"), "-o", exe]
    else:
        cmd = ["g++", *BASE_FLAGS, *INC, src, os.path.join(OUT, "runtime.o"), "-o", exe]
    r = subprocess.run(cmd, capture_output=True, text=True)
    if r.returncode != 0:
        raise CompileError(_errors(r.stderr))
    return exe


_UL = re.compile(r"\bunsigned\s+long\b(?!\s+long)")
_UL_LIT = re.compile(r"\b(\d+)[uU][lL]\b")


def avr_ulong(cpp: str) -> str:
    """The sketch with `unsigned long` rendered 32 bits wide, as on the AVR targets (it is 64-bit on the host): only then does
    millis() arithmetic wrap in the mock the way it does on the board after 49.7 days."""
    return _UL_LIT.sub(r"((uint32_t)\1)", _UL.sub("uint32_t", cpp))


class Trace:
    """Parsed firmware trace."""

    def __init__(self, events, status, stderr=""):
        self.events = events  # list of (t_us:int, kind:str, rest:str)
        self.status = status  # "ok" | "hang" | "crash:<rc>" | "sanitizer"
        self.stderr = stderr

    def kinds(self, *ks):
        return [e for e in self.events if e[1] in ks]


def run(exe: str, n: int, tape: str = "", wd: str | None = None, timeout=180) -> Trace:
    tape_path = None
    if tape:
        tape_path = os.path.join(wd or os.path.dirname(exe), "tape.txt")
        with open(tape_path, "w") as f:
            f.write(tape)
    env = dict(os.environ, ASAN_OPTIONS="detect_leaks=0:abort_on_error=0:halt_on_error=1", UBSAN_OPTIONS="print_stacktrace=0:halt_on_error=1")
    cmd = [exe, str(n)] + ([tape_path] if tape_path else [])
    try:
        r = subprocess.run(cmd, capture_output=True, timeout=timeout, env=env)
    except subprocess.TimeoutExpired as e:
        return Trace(_parse((e.stdout or b"").decode("latin-1")), "hang")
    out = r.stdout.decode("latin-1")
    err = r.stderr.decode("latin-1", "replace")
    events = _parse(out)
    if any(k == "FW_HANG" for _, k, _ in events) or r.returncode == 3:
        status = "hang"
    elif "AddressSanitizer" in err or "runtime error:" in err or "UndefinedBehaviorSanitizer" in err:
        status = "sanitizer"
    elif r.returncode != 0:
        status = f"crash:{r.returncode}"
    else:
        status = "ok"
    return Trace(events, status, err)


def _parse(out: str):
    ev = []
    for ln in out.split("\n"):
        if not ln:
            continue
        t, _, rest = ln.partition(" ")
        if not t.isdigit():
            continue
        kind, _, args = rest.partition(" ")
        ev.append((int(t), kind, args))
    return ev


def make_tape(t0_us=0, jitter=(), digital=None, analog=None, pulse=None, serial=(), budget=None) -> str:
    lines = []
    if t0_us:
        lines.append(f"T {t0_us}")
    if budget:
        lines.append(f"B {budget}")
    if jitter:
        lines.append("J " + " ".join(str(int(x)) for x in jitter))
    for kind, d in (("D", digital), ("A", analog), ("P", pulse)):
        for pin, vals in (d or {}).items():
            lines.append(f"{kind} {int(pin)} " + " ".join(str(int(v)) for v in vals))
    for s in serial:
        lines.append("S " + s if s else "S")
    return "\n".join(lines) + ("\n" if lines else "")
